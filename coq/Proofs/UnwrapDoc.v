(** The document-level theorem for ONE unwrap-block: a document with exactly one ready element
    carrying the [unwrap-block] attribute, whose two tags stand alone on their lines.  [clean]
    removes the opening tag's line, the opening wrapper line, the closing wrapper line and the
    closing tag's line, keeps the lines in between and dedents them (C11 / C12 at the level of the
    whole document; the analogue of Proofs/BlockDoc.v). *)
From Coq Require Import List NArith ZArith Arith Bool Lia PeanoNat.
Import ListNotations.
From Chiri Require Import Base.Bytes Base.Res Model.Tokenizer Model.TagParser Model.TreeParser
  Model.Finders Model.Markers Model.Format Model.Clean Spec.Rename Spec.Simulation Spec.Stack
  Spec.Lines Spec.Ranges
  Proofs.ResLemmas Proofs.BytesLemmas Proofs.Utf8 Proofs.RenameProofs Proofs.SimFlat
  Proofs.SimStrings Proofs.SimFront Proofs.C04Proofs Proofs.FormatterProofs Proofs.RangeProofs
  Proofs.FormatAssembly Proofs.CleanProofs Proofs.SeamProofs Proofs.UnwrapProofs
  Proofs.BlockProofs Proofs.BlockDoc.
From Chiri Require Proofs.Utf8Lemmas.

(* ------------------------------------------------------------------------- *)
(** * The documents *)

(** The text between the two tags: the rest of the opening tag's line (empty), the opening wrapper
    line [w1], the kept lines [inner], the closing wrapper line [w2] and what precedes the closing
    tag on its line [ind2]. *)
Definition unwrap_mid (w1 inner w2 ind2 : str) : str :=
  NL :: w1 ++ NL :: inner ++ NL :: w2 ++ NL :: ind2.

Definition unwrap_doc (A ind b1 w1 inner w2 ind2 b2 Z : str) : list item :=
  block_doc A ind b1 (unwrap_mid w1 inner w2 ind2) b2 Z.

(** What is left after the marker stage. *)
Definition unwrap_rest (A ind inner Z : str) : str := A ++ NL :: ind ++ NL :: inner ++ NL :: NL :: Z.

(* ------------------------------------------------------------------------- *)
(** * The abstract pause=false finders: first line break at or after / last before *)

Lemma nlb_f_first : forall fuel l j p,
  j <= p -> nth_error l p = Some (B NL) ->
  (forall i, j <= i -> i < p -> nth_error l i <> Some (B NL)) -> p - j < fuel ->
  nlb_f fuel l j false = Some p.
Proof.
  induction fuel as [|f IH]; intros l j p Hle Hp Hno Hf; [lia|].
  cbn [nlb_f]. destruct (Nat.eq_dec j p) as [->|Hne].
  - rewrite Hp, clb_NL. reflexivity.
  - assert (p < length l) as Lp by (apply nth_error_Some; congruence).
    pose proof (Hno j (Nat.le_refl j) ltac:(lia)) as Hj.
    assert (nlb_f f l (S j) false = Some p) as R.
    { apply IH; [lia | exact Hp | intros i H1 H2; apply Hno; lia | lia]. }
    destruct (nth_error l j) as [x|] eqn:N; [|apply nth_error_None in N; lia].
    destruct x as [c| |]; [|exact R|exact R].
    destruct (clb c) eqn:C; [exact R | | exact R].
    apply clb_found in C. subst c. congruence.
Qed.

Lemma a_next_lb_first l j p :
  j <= p -> nth_error l p = Some (B NL) ->
  (forall i, j <= i -> i < p -> nth_error l i <> Some (B NL)) ->
  a_next_lb l j false = Some p.
Proof.
  intros Hle Hp Hno. unfold a_next_lb. apply nlb_f_first; try assumption.
  assert (p < length l) as Lp by (apply nth_error_Some; congruence). lia.
Qed.

Lemma a_prev_lb_last l : forall j p,
  p < j -> j <= length l -> nth_error l p = Some (B NL) ->
  (forall i, p < i -> i < j -> nth_error l i <> Some (B NL)) ->
  a_prev_lb l j false = Some p.
Proof.
  induction j as [|j IH]; intros p Hlt Hj Hp Hno; [lia|].
  cbn [a_prev_lb]. destruct (Nat.eq_dec j p) as [->|Hne].
  - rewrite Hp, clb_NL. reflexivity.
  - pose proof (Hno j ltac:(lia) ltac:(lia)) as Hjj.
    assert (a_prev_lb l j false = Some p) as R.
    { apply IH; [lia | lia | exact Hp | intros i H1 H2; apply Hno; lia]. }
    destruct (nth_error l j) as [x|] eqn:N; [|apply nth_error_None in N; lia].
    destruct x as [c| |]; [|exact R|exact R].
    destruct (clb c) eqn:C; [exact R | | exact R].
    apply clb_found in C. subst c. congruence.
Qed.

(* ------------------------------------------------------------------------- *)
(** * Positions inside a text item *)

Lemma txt_sym doc i t k : nth_error doc i = Some (Txt t) -> k < length t ->
  nth_error (flat doc) (fstart doc i + k) = option_map B (nth_error t k).
Proof. intros H Hk. exact (sym_at_txt doc i k t H Hk). Qed.

Lemma txt_sym_not_nl doc i t k : nth_error doc i = Some (Txt t) -> k < length t ->
  nth_error t k <> Some NL -> nth_error (flat doc) (fstart doc i + k) <> Some (B NL).
Proof.
  intros H Hk Hn E. rewrite (txt_sym doc i t k H Hk) in E.
  destruct (nth_error t k) as [c|]; [|discriminate E]. cbn [option_map] in E.
  injection E as E. subst c. apply Hn. reflexivity.
Qed.

Lemma txt_end_le doc i t : nth_error doc i = Some (Txt t) ->
  fstart doc i + length t <= length (flat doc).
Proof.
  intros H. rewrite (flat_len_split doc i _ H), flat_item_len. lia.
Qed.

Lemma pos_in_txt ds de doc i t k : nth_error doc i = Some (Txt t) -> k <= length t ->
  pos ds de (flat doc) (fstart doc i + k) = item_start ds de doc i + k.
Proof.
  intros H Hk. rewrite (pos_in_item ds de doc i _ k H) by (rewrite flat_item_len; exact Hk).
  cbn [flat_item]. rewrite firstn_map_B, rs_map_B, firstn_length. lia.
Qed.

Lemma next_nl_in_txt doc i t k p : nth_error doc i = Some (Txt t) -> is_next_nl t k p ->
  a_next_lb (flat doc) (fstart doc i + k) false = Some (fstart doc i + p).
Proof.
  intros H (H1 & H2 & H3).
  assert (p < length t) as Lp by (apply nth_error_Some; congruence).
  apply a_next_lb_first.
  - lia.
  - rewrite (txt_sym doc i t p H Lp), H2. reflexivity.
  - intros j J1 J2. replace j with (fstart doc i + (j - fstart doc i)) by lia.
    apply (txt_sym_not_nl doc i t _ H); [lia|]. apply H3; lia.
Qed.

Lemma prev_nl_in_txt doc i t k p : nth_error doc i = Some (Txt t) -> is_prev_nl t k p ->
  k <= length t -> a_prev_lb (flat doc) (fstart doc i + k) false = Some (fstart doc i + p).
Proof.
  intros H (H1 & H2 & H3) Hk.
  assert (p < length t) as Lp by (apply nth_error_Some; congruence).
  pose proof (txt_end_le doc i t H) as Le.
  apply a_prev_lb_last.
  - lia.
  - lia.
  - rewrite (txt_sym doc i t p H Lp), H2. reflexivity.
  - intros j J1 J2. replace j with (fstart doc i + (j - fstart doc i)) by lia.
    apply (txt_sym_not_nl doc i t _ H); [lia|]. apply H3; lia.
Qed.

(* ------------------------------------------------------------------------- *)
(** * Line breaks of a text given by its pieces *)

Lemma nth_error_In_not {X} (x : list X) (c : X) j : ~ In c x -> nth_error x j <> Some c.
Proof. intros Hn E. apply Hn. apply (nth_error_In _ _ E). Qed.

Lemma is_next_nl_mid s pre x post : s = pre ++ x ++ NL :: post -> ~ In NL x ->
  is_next_nl s (length pre) (length pre + length x).
Proof.
  intros -> Hx. split; [lia|]. split.
  - rewrite nth_error_app2 by lia. rewrite nth_error_app2 by lia.
    replace (length pre + length x - length pre - length x) with 0 by lia. reflexivity.
  - intros j J1 J2. rewrite nth_error_app2 by lia. rewrite nth_error_app1 by lia.
    apply nth_error_In_not. exact Hx.
Qed.

Lemma is_prev_nl_mid s pre x post : s = pre ++ NL :: x ++ post -> ~ In NL x ->
  is_prev_nl s (length pre + 1 + length x) (length pre).
Proof.
  intros -> Hx. split; [lia|]. split.
  - rewrite nth_error_app2 by lia. rewrite Nat.sub_diag. reflexivity.
  - intros j J1 J2. rewrite nth_error_app2 by lia.
    destruct (j - length pre) as [|m] eqn:Em; [lia|]. cbn [nth_error].
    rewrite nth_error_app1 by lia. apply nth_error_In_not. exact Hx.
Qed.

(** Two line breaks forwards from the start of a text that begins with a line break. *)
Lemma ub_end_txt doc i w1 rest : nth_error doc i = Some (Txt (NL :: w1 ++ NL :: rest)) ->
  ~ In NL w1 -> a_ub_end (flat doc) (fstart doc i) = Some (fstart doc i + (1 + length w1)).
Proof.
  intros H Hw. unfold a_ub_end.
  rewrite <- (Nat.add_0_r (fstart doc i)) at 1.
  rewrite (next_nl_in_txt doc i _ 0 0 H).
  2:{ apply (is_next_nl_mid _ [] [] (w1 ++ NL :: rest)); [reflexivity | intros []]. }
  rewrite Nat.add_0_r. replace (S (fstart doc i)) with (fstart doc i + 1) by lia.
  apply (next_nl_in_txt doc i _ 1 (1 + length w1) H).
  apply (is_next_nl_mid _ [NL] w1 rest); [reflexivity | exact Hw].
Qed.

(** Two line breaks backwards from the end of a text. *)
Lemma ub_start_txt doc i front w2 ind2 :
  nth_error doc i = Some (Txt (front ++ NL :: w2 ++ NL :: ind2)) ->
  ~ In NL w2 -> ~ In NL ind2 ->
  a_ub_start (flat doc) (fstart doc (S i)) = Some (fstart doc i + length front).
Proof.
  intros H Hw Hi. unfold a_ub_start.
  rewrite (fstart_S doc i _ H), flat_item_len.
  set (t := front ++ NL :: w2 ++ NL :: ind2) in *.
  assert (length t = length front + 1 + length w2 + 1 + length ind2) as Lt.
  { unfold t. rewrite !app_length. cbn [length]. rewrite !app_length. cbn [length]. lia. }
  rewrite (prev_nl_in_txt doc i t (length t) (length front + 1 + length w2) H).
  - apply (prev_nl_in_txt doc i t _ _ H); [|lia].
    apply (is_prev_nl_mid t front w2 (NL :: ind2)); [reflexivity | exact Hw].
  - rewrite Lt.
    replace (length front + 1 + length w2) with (length (front ++ NL :: w2))
      by (rewrite app_length; cbn [length]; lia).
    apply (is_prev_nl_mid t (front ++ NL :: w2) ind2 []); [|exact Hi].
    unfold t. rewrite <- app_assoc, app_nil_r. reflexivity.
  - lia.
Qed.

(* ------------------------------------------------------------------------- *)
(** * The forest of a block document whose element has the unwrap-block attribute *)

Lemma unwrap_forest cfg A ind b1 mid b2 Z el1 el2 :
  parse_target b1 = Ok (Some el1) -> parse_target b2 = Ok (Some el2) -> closes el2 el1 ->
  status cfg el1 = Some true -> has_attr S_UNWRAP (el_attrs el1) = true ->
  let doc := block_doc A ind b1 mid b2 Z in
  forall a b cl,
  a_unwrap (flat doc) (fstart doc 1) (fstart doc 2) (fstart doc 3) (fstart doc 4) = ((a, b), cl) ->
  fst (a_collect cfg doc false) = if a <? b then [RT ((a, b), cl) []] else [].
Proof.
  intros P1 P2 Hc Hs Hu doc a b cl Ha. unfold a_collect. cbn [fst].
  unfold doc. rewrite (block_tree A ind b1 mid b2 Z el1 el2 P1 P2 Hc). fold doc.
  cbn [flat_map a_collect_part fst app].
  unfold a_element_range, a_create. rewrite Hs, Hu, Ha.
  destruct (a <? b); reflexivity.
Qed.

Lemma block_mid_item A ind b1 mid b2 Z :
  nth_error (block_doc A ind b1 mid b2 Z) 2 = Some (Txt mid).
Proof. reflexivity. Qed.

(** The abstract removable range in the three layouts: at least one kept line, exactly two lines
    between the tags, one line between the tags. *)
Lemma unwrap_a_main A ind b1 w1 inner w2 ind2 b2 Z :
  ~ In NL w1 -> ~ In NL w2 -> ~ In NL ind2 ->
  let doc := unwrap_doc A ind b1 w1 inner w2 ind2 b2 Z in
  a_unwrap (flat doc) (fstart doc 1) (fstart doc 2) (fstart doc 3) (fstart doc 4) =
  ((fstart doc 1, fstart doc 2 + (1 + length w1)),
   Some (S (fstart doc 2 + (1 + length w1 + 1 + length inner)), fstart doc 4)).
Proof.
  intros H1 H2 H3 doc. unfold a_unwrap.
  assert (nth_error doc 2 = Some (Txt (unwrap_mid w1 inner w2 ind2))) as Hm by reflexivity.
  rewrite (ub_end_txt doc 2 w1 (inner ++ NL :: w2 ++ NL :: ind2) Hm H1).
  rewrite (ub_start_txt doc 2 (NL :: w1 ++ NL :: inner) w2 ind2).
  - replace (length (NL :: w1 ++ NL :: inner)) with (1 + length w1 + 1 + length inner)
      by (cbn [length]; rewrite app_length; cbn [length]; lia).
    assert (fstart doc 2 + (1 + length w1) <? fstart doc 2 + (1 + length w1 + 1 + length inner) = true)
      as L by (apply Nat.ltb_lt; lia).
    rewrite L. reflexivity.
  - rewrite Hm. unfold unwrap_mid. cbn [app]. rewrite <- app_assoc. reflexivity.
  - exact H2.
  - exact H3.
Qed.

Lemma unwrap_a_two A ind b1 w1 w2 ind2 b2 Z :
  ~ In NL w1 -> ~ In NL w2 -> ~ In NL ind2 ->
  let doc := block_doc A ind b1 (NL :: w1 ++ NL :: w2 ++ NL :: ind2) b2 Z in
  a_unwrap (flat doc) (fstart doc 1) (fstart doc 2) (fstart doc 3) (fstart doc 4) =
  ((fstart doc 1, fstart doc 4), None).
Proof.
  intros H1 H2 H3 doc. unfold a_unwrap.
  pose proof (block_mid_item A ind b1 (NL :: w1 ++ NL :: w2 ++ NL :: ind2) b2 Z) as Hm.
  fold doc in Hm.
  rewrite (ub_end_txt doc 2 w1 (w2 ++ NL :: ind2) Hm H1).
  rewrite (ub_start_txt doc 2 (NL :: w1) w2 ind2 Hm H2 H3).
  replace (length (NL :: w1)) with (1 + length w1) by reflexivity.
  rewrite Nat.ltb_irrefl, Nat.eqb_refl. reflexivity.
Qed.

Lemma unwrap_a_one A ind b1 w1 ind2 b2 Z :
  ~ In NL w1 -> ~ In NL ind2 ->
  let doc := block_doc A ind b1 (NL :: w1 ++ NL :: ind2) b2 Z in
  a_unwrap (flat doc) (fstart doc 1) (fstart doc 2) (fstart doc 3) (fstart doc 4) =
  ((fstart doc 1, fstart doc 1), None).
Proof.
  intros H1 H3 doc. unfold a_unwrap.
  pose proof (block_mid_item A ind b1 (NL :: w1 ++ NL :: ind2) b2 Z) as Hm. fold doc in Hm.
  rewrite (ub_end_txt doc 2 w1 ind2 Hm H1).
  rewrite (ub_start_txt doc 2 [] w1 ind2 Hm H1 H3).
  cbn [length]. rewrite Nat.add_0_r.
  assert (fstart doc 2 + (1 + length w1) <? fstart doc 2 = false) as L1
    by (apply Nat.ltb_ge; lia).
  assert (fstart doc 2 =? fstart doc 2 + (1 + length w1) = false) as L2
    by (apply Nat.eqb_neq; lia).
  rewrite L1, L2. reflexivity.
Qed.

(** No line break between the tags: whatever the line breaks further away are, the second line
    break after the opening tag lies behind the closing tag and the second before the closing tag
    lies in front of the opening tag: the range is empty. *)
Lemma unwrap_a_none A ind b1 mid b2 Z :
  ~ In NL mid ->
  let doc := block_doc A ind b1 mid b2 Z in
  a_unwrap (flat doc) (fstart doc 1) (fstart doc 2) (fstart doc 3) (fstart doc 4) =
  ((fstart doc 1, fstart doc 1), None).
Proof.
  intros Hn doc. unfold a_unwrap.
  pose proof (block_mid_item A ind b1 mid b2 Z) as Hm. fold doc in Hm.
  destruct (a_ub_end (flat doc) (fstart doc 2)) as [e|] eqn:E1; [|reflexivity].
  destruct (a_ub_start (flat doc) (fstart doc 3)) as [s|] eqn:E2; [|reflexivity].
  apply a_ub_start_some in E2. destruct E2 as [E2 _].
  unfold a_ub_end in E1.
  destruct (a_next_lb (flat doc) (fstart doc 2) false) as [p|] eqn:F; [|discriminate E1].
  apply a_next_lb_some in F. destruct F as (F1 & _ & F3 & _).
  apply a_next_lb_some in E1. destruct E1 as (G1 & _).
  assert (fstart doc 3 = fstart doc 2 + length mid) as E3
    by (rewrite (fstart_S doc 2 _ Hm), flat_item_len; reflexivity).
  assert (fstart doc 3 <= p) as Lp.
  { destruct (Nat.le_gt_cases (fstart doc 3) p) as [L|L]; [exact L|]. exfalso.
    replace p with (fstart doc 2 + (p - fstart doc 2)) in F3 by lia.
    revert F3. apply (txt_sym_not_nl doc 2 mid _ Hm); [lia|].
    apply nth_error_In_not. exact Hn. }
  assert (e <? s = false) as L1 by (apply Nat.ltb_ge; lia).
  assert (s =? e = false) as L2 by (apply Nat.eqb_neq; lia).
  rewrite L1, L2. reflexivity.
Qed.

(* ------------------------------------------------------------------------- *)
(** * Part 1: the marker level in the document *)

Lemma block_fstarts A ind b1 mid b2 Z :
  let doc := block_doc A ind b1 mid b2 Z in
  fstart doc 2 = fstart doc 1 + (length b1 + 2) /\ fstart doc 3 = fstart doc 2 + length mid /\
  fstart doc 4 = fstart doc 3 + (length b2 + 2).
Proof.
  intros doc. split; [|split].
  - rewrite (fstart_S doc 1 (Tag b1) eq_refl), flat_item_len. reflexivity.
  - rewrite (fstart_S doc 2 (Txt mid) eq_refl), flat_item_len. reflexivity.
  - rewrite (fstart_S doc 3 (Tag b2) eq_refl), flat_item_len. reflexivity.
Qed.

Lemma block_item_start2 ds de A ind b1 mid b2 Z :
  let doc := block_doc A ind b1 mid b2 Z in
  item_start ds de doc 2 = length A + 1 + length ind + length (ds ++ b1 ++ de).
Proof.
  intros doc. unfold doc, block_doc. cbn [item_start]. unfold item_len. cbn [render_item].
  rewrite !app_length. cbn [length]. lia.
Qed.

Lemma unwrap_mid_length w1 inner w2 ind2 :
  length (unwrap_mid w1 inner w2 ind2) =
  1 + length w1 + 1 + length inner + 1 + length w2 + 1 + length ind2.
Proof.
  unfold unwrap_mid. cbn [length]. rewrite app_length. cbn [length]. rewrite app_length.
  cbn [length]. rewrite app_length. cbn [length]. lia.
Qed.

(** The merge of a single tree with a closing part: two markers pointing at each other. *)
Lemma merge_markers_pair (m em : Markers.range) :
  merge_markers [RT (m, Some em) []] = Ok [(m, Some 1); (em, Some 0)].
Proof. reflexivity. Qed.

Lemma merge_markers_single (m : Markers.range) :
  merge_markers [RT (m, None) []] = Ok [(m, None)].
Proof. reflexivity. Qed.

(** The two removed parts: [start of the opening tag, the line break after w1) and
    [first byte of w2, end of the closing tag). *)
Theorem unwrap_markers : forall cfg ds de A ind b1 w1 inner w2 ind2 b2 Z el1 el2,
  let doc := unwrap_doc A ind b1 w1 inner w2 ind2 b2 Z in
  good_delims ds de -> good_doc ds de doc -> bodies_ok doc ->
  parse_target b1 = Ok (Some el1) -> parse_target b2 = Ok (Some el2) -> closes el2 el1 ->
  status cfg el1 = Some true -> has_attr S_UNWRAP (el_attrs el1) = true ->
  ~ In NL w1 -> ~ In NL w2 -> ~ In NL ind2 ->
  let p1 := length A + 1 + length ind in
  let e1 := p1 + length (ds ++ b1 ++ de) + 1 + length w1 in
  let s2 := e1 + 1 + length inner + 1 in
  let k2 := s2 + length w2 + 1 + length ind2 + length (ds ++ b2 ++ de) in
  markers_of cfg ds de (render ds de doc) = Ok [((p1, e1), Some 1); ((s2, k2), Some 0)].
Proof.
  intros cfg ds de A ind b1 w1 inner w2 ind2 b2 Z el1 el2 doc Hg Hd Hb P1 P2 Hc Hs Hu
         N1 N2 N3 p1 e1 s2 k2.
  destruct (collect_rendered cfg ds de doc false Hg Hd Hb) as (parts & Hf & Hc1 & _).
  pose proof (unwrap_forest cfg A ind b1 (unwrap_mid w1 inner w2 ind2) b2 Z el1 el2
                P1 P2 Hc Hs Hu _ _ _ (unwrap_a_main A ind b1 w1 inner w2 ind2 b2 Z N1 N2 N3)) as Hfo.
  cbv zeta in Hfo. fold (unwrap_doc A ind b1 w1 inner w2 ind2 b2 Z) in Hfo. fold doc in Hfo.
  destruct (block_fstarts A ind b1 (unwrap_mid w1 inner w2 ind2) b2 Z) as (F2 & F3 & F4).
  fold (unwrap_doc A ind b1 w1 inner w2 ind2 b2 Z) in F2, F3, F4. fold doc in F2, F3, F4.
  assert (fstart doc 1 <? fstart doc 2 + (1 + length w1) = true) as L
    by (apply Nat.ltb_lt; lia).
  rewrite L in Hfo. rewrite Hfo in Hc1. clear Hfo L.
  cbn [map map_rtree option_map] in Hc1. unfold map_range in Hc1. cbn [fst snd] in Hc1.
  assert (nth_error doc 2 = Some (Txt (unwrap_mid w1 inner w2 ind2))) as Hm by reflexivity.
  pose proof (unwrap_mid_length w1 inner w2 ind2) as Lm.
  rewrite <- Nat.add_succ_r in Hc1.
  rewrite !pos_fstart in Hc1 by (cbn; lia).
  rewrite !(pos_in_txt ds de doc 2 _ _ Hm) in Hc1 by lia.
  destruct (block_item_starts ds de A ind b1 (unwrap_mid w1 inner w2 ind2) b2 Z) as [I1 I4].
  pose proof (block_item_start2 ds de A ind b1 (unwrap_mid w1 inner w2 ind2) b2 Z) as I2.
  fold (unwrap_doc A ind b1 w1 inner w2 ind2 b2 Z) in I1, I2, I4. fold doc in I1, I2, I4.
  cbv zeta in I2. fold doc in I2.
  rewrite I1, I2, I4 in Hc1. fold p1 in Hc1.
  replace (p1 + length (ds ++ b1 ++ de) + (1 + length w1)) with e1 in Hc1 by (unfold e1; lia).
  replace (p1 + length (ds ++ b1 ++ de) + S (1 + length w1 + 1 + length inner)) with s2 in Hc1
    by (unfold s2, e1; lia).
  replace (p1 + length (ds ++ b1 ++ de) + length (unwrap_mid w1 inner w2 ind2) +
           length (ds ++ b2 ++ de)) with k2 in Hc1 by (unfold k2, s2, e1; lia).
  unfold markers_of. rewrite Hf. cbn [bind]. unfold build_remove_marker. rewrite Hc1.
  apply merge_markers_pair.
Qed.

Lemma unwrap_render ds de A ind b1 w1 inner w2 ind2 b2 Z :
  render ds de (unwrap_doc A ind b1 w1 inner w2 ind2 b2 Z) =
  (A ++ NL :: ind) ++ ((ds ++ b1 ++ de) ++ NL :: w1) ++ (NL :: inner ++ [NL]) ++
  (w2 ++ NL :: ind2 ++ ds ++ b2 ++ de) ++ NL :: Z.
Proof.
  unfold unwrap_doc. rewrite block_render. unfold unwrap_mid.
  repeat (rewrite <- !app_assoc; cbn [app]). reflexivity.
Qed.

Lemma unwrap_rest_split A ind inner Z :
  unwrap_rest A ind inner Z = (A ++ NL :: ind) ++ (NL :: inner ++ [NL]) ++ NL :: Z.
Proof. unfold unwrap_rest. rewrite <- !app_assoc. cbn [app]. rewrite <- !app_assoc. reflexivity. Qed.

Ltac len := repeat (rewrite app_length || (progress cbn [length])).

(** Cutting two pieces out of a list, the later one first. *)
Lemma cut_two {X} (a m1 c m2 z : list X) n1 n2 n3 n4 :
  n1 = length a -> n2 = length a + length m1 -> n3 = length a + length m1 + length c ->
  n4 = length a + length m1 + length c + length m2 ->
  let r := a ++ m1 ++ c ++ m2 ++ z in
  let r1 := firstn n3 r ++ skipn n4 r in
  firstn n1 r1 ++ skipn n2 r1 = a ++ c ++ z.
Proof.
  intros -> -> -> -> r r1.
  assert (r1 = a ++ m1 ++ c ++ z) as ->.
  { unfold r1, r. replace (a ++ m1 ++ c ++ m2 ++ z) with ((a ++ m1 ++ c) ++ m2 ++ z)
      by (rewrite <- !app_assoc; reflexivity).
    rewrite firstn_skipn_mid; [rewrite <- !app_assoc; reflexivity | |];
      rewrite !app_length; lia. }
  apply firstn_skipn_mid; reflexivity.
Qed.

(** Part 1: what [remove_markers] leaves and the two removed positions with their pair indices. *)
Theorem unwrap_removed : forall cfg ds de A ind b1 w1 inner w2 ind2 b2 Z el1 el2,
  let doc := unwrap_doc A ind b1 w1 inner w2 ind2 b2 Z in
  good_delims ds de -> good_doc ds de doc -> bodies_ok doc ->
  parse_target b1 = Ok (Some el1) -> parse_target b2 = Ok (Some el2) -> closes el2 el1 ->
  status cfg el1 = Some true -> has_attr S_UNWRAP (el_attrs el1) = true ->
  ~ In NL w1 -> ~ In NL w2 -> ~ In NL ind2 ->
  let p1 := length A + 1 + length ind in
  let p2 := p1 + 1 + length inner + 1 in
  exists ms, markers_of cfg ds de (render ds de doc) = Ok ms /\
    remove_markers (render ds de doc) ms = Ok (unwrap_rest A ind inner Z) /\
    get_removed_pos ms = Ok [(p1, Some 1); (p2, Some 0)].
Proof.
  intros cfg ds de A ind b1 w1 inner w2 ind2 b2 Z el1 el2 doc Hg Hd Hb P1 P2 Hc Hs Hu
         N1 N2 N3 p1 p2.
  pose proof (unwrap_markers cfg ds de A ind b1 w1 inner w2 ind2 b2 Z el1 el2
                Hg Hd Hb P1 P2 Hc Hs Hu N1 N2 N3) as Hm.
  cbv zeta in Hm. fold doc in Hm. fold p1 in Hm.
  set (e1 := p1 + length (ds ++ b1 ++ de) + 1 + length w1) in *.
  set (s2 := e1 + 1 + length inner + 1) in *.
  set (k2 := s2 + length w2 + 1 + length ind2 + length (ds ++ b2 ++ de)) in *.
  eexists. split; [exact Hm|].
  pose proof Hg as (Nds & Nde & Wds & Wde & _).
  destruct (clean_total cfg ds de (render ds de doc) (render_wf ds de doc Hg Hd) Wds Wde Nds Nde)
    as (out & Hout & _).
  unfold clean in Hout. rewrite Hm in Hout. cbn [bind] in Hout.
  split.
  - destruct (remove_markers (render ds de doc) [((p1, e1), Some 1); ((s2, k2), Some 0)])
      as [removed|] eqn:Er; [|discriminate Hout].
    f_equal. clear Hout.
    unfold remove_markers in Er. cbn [rev app foldM fst snd bind] in Er.
    destruct (replace_range (render ds de doc) s2 k2) as [r1|] eqn:E1; [|discriminate Er].
    cbn [bind] in Er. destruct (replace_range r1 p1 e1) as [r2|] eqn:E2; [|discriminate Er].
    cbn [bind] in Er. injection Er as <-.
    apply replace_range_ok in E1. apply replace_range_ok in E2. subst r1. rewrite E2.
    unfold doc. rewrite unwrap_render, unwrap_rest_split.
    apply cut_two.
    + unfold p1. len. lia.
    + unfold e1, p1. len. lia.
    + unfold s2, e1, p1. len. lia.
    + unfold k2, s2, e1, p1. len. lia.
  - clear Hout. unfold get_removed_pos. cbn [foldM bind]. unfold csub.
    assert (0 <=? p1 = true) as L0 by reflexivity.
    assert (p1 <=? e1 = true) as L1 by (apply Nat.leb_le; unfold e1; lia).
    assert (0 + (e1 - p1) <=? s2 = true) as L2 by (apply Nat.leb_le; unfold s2; lia).
    assert (s2 <=? k2 = true) as L3 by (apply Nat.leb_le; unfold k2; lia).
    rewrite L0. cbn [bind]. rewrite L1. cbn [bind app]. rewrite L2. cbn [bind]. rewrite L3.
    cbn [bind app]. f_equal. f_equal; [rewrite Nat.sub_0_r; reflexivity|].
    f_equal. f_equal. unfold p2, s2, e1. lia.
Qed.

(* ------------------------------------------------------------------------- *)
(** * The remaining text *)

Lemma nth_error_at {X} (x : list X) c y n : n = length x -> nth_error (x ++ c :: y) n = Some c.
Proof. intros ->. rewrite nth_error_app2 by lia. rewrite Nat.sub_diag. reflexivity. Qed.

Lemma unwrap_rest_split1 A ind inner Z :
  unwrap_rest A ind inner Z = (A ++ NL :: ind) ++ NL :: inner ++ NL :: NL :: Z.
Proof. unfold unwrap_rest. repeat (rewrite <- !app_assoc; cbn [app]). reflexivity. Qed.

Lemma unwrap_rest_split2 A ind inner Z :
  unwrap_rest A ind inner Z = (A ++ NL :: ind ++ NL :: inner) ++ NL :: NL :: Z.
Proof. unfold unwrap_rest. repeat (rewrite <- !app_assoc; cbn [app]). reflexivity. Qed.

Lemma unwrap_rest_split3 A ind inner Z :
  unwrap_rest A ind inner Z = (A ++ NL :: ind ++ NL :: inner ++ [NL]) ++ NL :: Z.
Proof. unfold unwrap_rest. repeat (rewrite <- !app_assoc; cbn [app]). reflexivity. Qed.

Lemma unwrap_rest_facts A ind inner Z :
  let s' := unwrap_rest A ind inner Z in
  let p1 := length A + 1 + length ind in
  let p2 := p1 + 1 + length inner + 1 in
  nth_error s' p1 = Some NL /\ nth_error s' (p2 - 1) = Some NL /\ nth_error s' p2 = Some NL /\
  length s' = p2 + 1 + length Z.
Proof.
  intros s' p1 p2. split; [|split; [|split]].
  - unfold s'. rewrite unwrap_rest_split1. apply nth_error_at. unfold p1. len. lia.
  - unfold s'. rewrite unwrap_rest_split2. apply nth_error_at. unfold p2, p1. len. lia.
  - unfold s'. rewrite unwrap_rest_split3. apply nth_error_at. unfold p2, p1. len. lia.
  - unfold s', unwrap_rest, p2, p1. len. lia.
Qed.

Lemma unwrap_rest_wf A ind w1 inner w2 ind2 Z :
  wf_utf8 (A ++ NL :: ind) = true -> wf_utf8 (unwrap_mid w1 inner w2 ind2) = true ->
  wf_utf8 (NL :: Z) = true -> wf_utf8 (unwrap_rest A ind inner Z) = true.
Proof.
  intros W1 W2 W3.
  apply Utf8Lemmas.wf_utf8_WF in W1. apply Utf8Lemmas.wf_utf8_WF in W2.
  apply Utf8Lemmas.wf_utf8_WF in W3. apply Utf8Lemmas.wf_utf8_WF.
  assert (Utf8Lemmas.WF inner) as Wi.
  { unfold unwrap_mid in W2.
    apply (Utf8Lemmas.WF_after_ascii (NL :: w1) NL _ eq_refl) in W2.
    apply (Utf8Lemmas.WF_app_inv_l inner _ W2). reflexivity. }
  rewrite unwrap_rest_split. apply Utf8Lemmas.WF_app; [exact W1|].
  apply Utf8Lemmas.WF_app; [|exact W3].
  apply (Utf8Lemmas.WF_ascii_l NL _ eq_refl). apply Utf8Lemmas.WF_app; [exact Wi|].
  apply (Utf8Lemmas.WF_ascii_l NL _ eq_refl). constructor.
Qed.

Lemma unwrap_doc_wf ds de A ind b1 w1 inner w2 ind2 b2 Z :
  good_doc ds de (unwrap_doc A ind b1 w1 inner w2 ind2 b2 Z) ->
  wf_utf8 (A ++ NL :: ind) = true /\ wf_utf8 (unwrap_mid w1 inner w2 ind2) = true /\
  wf_utf8 (NL :: Z) = true.
Proof.
  intros (_ & _ & Wt & _). repeat split; apply Wt; unfold unwrap_doc, block_doc; cbn [In]; auto 6.
Qed.

(* ------------------------------------------------------------------------- *)
(** * Part 2, general form: the ranges [format] deletes from the remaining text *)

Theorem clean_unwrap_block : forall cfg ds de A ind b1 w1 inner w2 ind2 b2 Z el1 el2,
  let doc := unwrap_doc A ind b1 w1 inner w2 ind2 b2 Z in
  good_delims ds de -> good_doc ds de doc -> bodies_ok doc ->
  parse_target b1 = Ok (Some el1) -> parse_target b2 = Ok (Some el2) -> closes el2 el1 ->
  status cfg el1 = Some true -> has_attr S_UNWRAP (el_attrs el1) = true ->
  ~ In NL w1 -> ~ In NL w2 -> ~ In NL ind2 ->
  let s' := unwrap_rest A ind inner Z in
  let p1 := length A + 1 + length ind in
  let p2 := p1 + 1 + length inner + 1 in
  exists a1 c1 a2 c2 bl merged,
    format_block s' p1 = Ok (a1, c1) /\ format_block s' p2 = Ok (a2, c2) /\
    block_indent_remover s' p1 p2 = Ok bl /\
    merge_ranges [(a1, c1); (a2, c2)] (sort_ranges bl) = Ok merged /\
    clean cfg ds de (render ds de doc) = Ok (delete_ranges (merge_overlapped_ranges merged) s').
Proof.
  intros cfg ds de A ind b1 w1 inner w2 ind2 b2 Z el1 el2 doc Hg Hd Hb P1 P2 Hc Hs Hu
         N1 N2 N3 s' p1 p2.
  destruct (unwrap_removed cfg ds de A ind b1 w1 inner w2 ind2 b2 Z el1 el2
              Hg Hd Hb P1 P2 Hc Hs Hu N1 N2 N3) as (ms & Hm & Hr & Hp).
  fold doc in Hm, Hr. fold s' in Hr. fold p1 in Hp. fold p2 in Hp.
  destruct (unwrap_doc_wf ds de A ind b1 w1 inner w2 ind2 b2 Z Hd) as (W1 & W2 & W3).
  pose proof (unwrap_rest_wf A ind w1 inner w2 ind2 Z W1 W2 W3) as Hw. fold s' in Hw.
  destruct (unwrap_rest_facts A ind inner Z) as (Np1 & _ & Np2 & Ls).
  fold s' in Np1, Np2, Ls. fold p1 in Np1, Np2, Ls. fold p2 in Np2, Ls.
  set (rpos := [(p1, Some 1); (p2, Some 0)]) in *.
  destruct (format_spec s' rpos Hw) as (rs & Efr & _ & _ & _ & _ & Efmt & _).
  { intros p pi [E|[E|[]]]; injection E as <- <-; (split; [lia|]).
    - apply (UnwrapProofs.NL_boundary _ _ Np1).
    - apply (UnwrapProofs.NL_boundary _ _ Np2). }
  { intros p pi [E|[E|[]]]; injection E as <- <-; cbn; lia. }
  assert (clean cfg ds de (render ds de doc) = Ok (delete_ranges rs s')) as Hclean.
  { unfold clean. rewrite Hm. cbn [bind]. rewrite Hr. cbn [bind]. rewrite Hp. cbn [bind].
    exact Efmt. }
  rewrite Hclean. clear Hclean Efmt.
  rewrite format_ranges_unfold in Efr. unfold rpos in Efr at 2. cbn [foldM] in Efr.
  unfold fr_step at 1 in Efr.
  destruct (format_block s' p1) as [[a1 c1]|] eqn:F1; [|discriminate Efr].
  cbn [bind] in Efr. unfold rpos at 1 in Efr. cbn [index nth_error bind] in Efr.
  assert (p1 <? p2 = true) as L12 by (apply Nat.ltb_lt; unfold p2; lia).
  rewrite L12 in Efr.
  destruct (block_indent_remover s' p1 p2) as [bl|] eqn:Fb; [|discriminate Efr].
  cbn [bind app] in Efr. unfold fr_step in Efr.
  destruct (format_block s' p2) as [[a2 c2]|] eqn:F2; [|discriminate Efr].
  cbn [bind] in Efr. unfold rpos in Efr. cbn [index nth_error bind] in Efr.
  assert (p2 <? p1 = false) as L21 by (apply Nat.ltb_ge; unfold p2; lia).
  rewrite L21 in Efr. cbn [bind app] in Efr.
  match type of Efr with bind ?m _ = _ => destruct m as [merged|] eqn:Fm end;
    [|discriminate Efr].
  cbn [bind] in Efr. injection Efr as <-.
  exists a1, c1, a2, c2, bl, merged. repeat split; try reflexivity. exact Fm.
Qed.

(* ------------------------------------------------------------------------- *)
(** * Part 3: the boundary cases of C11 *)

(** A block document whose forest is the single range from the opening to the closing tag
    (the proof of [clean_single_block], from the forest on). *)
Lemma clean_block_forest cfg ds de A ind b1 mid b2 Z :
  let doc := block_doc A ind b1 mid b2 Z in
  good_delims ds de -> good_doc ds de doc -> bodies_ok doc ->
  fst (a_collect cfg doc false) = [RT ((fstart doc 1, fstart doc 4), None) []] ->
  let s' := A ++ NL :: ind ++ NL :: Z in
  let p := length A + 1 + length ind in
  exists a b, format_block s' p = Ok (a, b) /\
     clean cfg ds de (render ds de doc) = Ok (firstn a s' ++ skipn b s').
Proof.
  intros doc Hg Hd Hb Hfo s' p.
  pose proof Hg as (Nds & Nde & Wds & Wde & _).
  destruct (clean_total cfg ds de (render ds de doc) (render_wf ds de doc Hg Hd) Wds Wde Nds Nde)
    as (out & Hout & _).
  destruct (collect_rendered cfg ds de doc false Hg Hd Hb) as (parts & Hf & Hc1 & _).
  rewrite Hfo in Hc1.
  cbn [map map_rtree option_map] in Hc1. unfold map_range in Hc1. cbn [fst snd] in Hc1.
  rewrite !pos_fstart in Hc1 by (cbn; lia).
  destruct (block_item_starts ds de A ind b1 mid b2 Z) as [I1 I4]. fold doc in I1, I4.
  rewrite I1, I4 in Hc1. fold p in Hc1.
  set (k := p + length (ds ++ b1 ++ de) + length mid + length (ds ++ b2 ++ de)) in *.
  assert (markers_of cfg ds de (render ds de doc) = Ok [((p, k), None)]) as Hm.
  { unfold markers_of. rewrite Hf. cbn [bind]. unfold build_remove_marker. rewrite Hc1.
    reflexivity. }
  pose proof Hout as Hclean.
  unfold clean in Hout. rewrite Hm in Hout. cbn [bind] in Hout.
  unfold remove_markers in Hout. cbn [rev app foldM fst snd bind] in Hout.
  destruct (replace_range (render ds de doc) p k) as [removed|] eqn:Er; [|discriminate Hout].
  cbn [bind] in Hout.
  assert (removed = s') as ->.
  { apply replace_range_ok in Er. rewrite Er. unfold doc. rewrite block_render. unfold s'.
    replace (A ++ NL :: ind ++ NL :: Z) with ((A ++ NL :: ind) ++ NL :: Z)
      by (rewrite <- app_assoc; reflexivity).
    apply firstn_skipn_mid.
    - unfold p. rewrite app_length. cbn [length]. lia.
    - unfold k, p. rewrite !app_length. cbn [length]. lia. }
  unfold get_removed_pos in Hout. cbn [foldM bind] in Hout.
  unfold csub in Hout. cbn [Nat.leb] in Hout. cbn [bind] in Hout.
  assert (p <=? k = true) as Lpk by (apply Nat.leb_le; unfold k; lia).
  rewrite Lpk in Hout. cbn [bind app] in Hout. rewrite Nat.sub_0_r in Hout.
  unfold format, format_ranges in Hout. cbn [foldM bind] in Hout.
  destruct (format_block s' p) as [[a b]|] eqn:Ef; [|discriminate Hout].
  exists a, b. split; [reflexivity|].
  cbn [bind app sort_ranges fold_right merge_ranges length Nat.sub rev merge_ranges_loop
       merge_overlapped_ranges fold_left] in Hout.
  unfold delete_ranges_rev in Hout. cbn [rev app foldM fst snd bind] in Hout.
  destruct (replace_range s' a b) as [o|] eqn:Eo; [|discriminate Hout].
  cbn [bind] in Hout. apply replace_range_ok in Eo. rewrite Hclean.
  injection Hout as Hout. rewrite <- Hout, Eo. reflexivity.
Qed.

(** A block document whose forest is empty is left untouched. *)
Lemma clean_empty_forest cfg ds de doc :
  good_delims ds de -> good_doc ds de doc -> bodies_ok doc ->
  fst (a_collect cfg doc false) = [] ->
  clean cfg ds de (render ds de doc) = Ok (render ds de doc).
Proof.
  intros Hg Hd Hb Hfo.
  destruct (collect_rendered cfg ds de doc false Hg Hd Hb) as (parts & Hf & Hc1 & _).
  rewrite Hfo in Hc1. cbn [map] in Hc1.
  apply clean_no_markers. unfold markers_of. rewrite Hf. cbn [bind].
  unfold build_remove_marker. rewrite Hc1. reflexivity.
Qed.

(** Exactly two lines between the tags (no kept line): the whole element is one range and
    [clean] does what it does for a default-strategy block. *)
Theorem clean_unwrap_two_lines : forall cfg ds de A ind b1 w1 w2 ind2 b2 Z el1 el2,
  let doc := block_doc A ind b1 (NL :: w1 ++ NL :: w2 ++ NL :: ind2) b2 Z in
  good_delims ds de -> good_doc ds de doc -> bodies_ok doc ->
  parse_target b1 = Ok (Some el1) -> parse_target b2 = Ok (Some el2) -> closes el2 el1 ->
  status cfg el1 = Some true -> has_attr S_UNWRAP (el_attrs el1) = true ->
  ~ In NL w1 -> ~ In NL w2 -> ~ In NL ind2 ->
  let s' := A ++ NL :: ind ++ NL :: Z in
  let p := length A + 1 + length ind in
  exists a b, format_block s' p = Ok (a, b) /\
     clean cfg ds de (render ds de doc) = Ok (firstn a s' ++ skipn b s').
Proof.
  intros cfg ds de A ind b1 w1 w2 ind2 b2 Z el1 el2 doc Hg Hd Hb P1 P2 Hc Hs Hu N1 N2 N3.
  apply (clean_block_forest cfg ds de A ind b1 _ b2 Z Hg Hd Hb).
  rewrite (unwrap_forest cfg A ind b1 _ b2 Z el1 el2 P1 P2 Hc Hs Hu _ _ _
             (unwrap_a_two A ind b1 w1 w2 ind2 b2 Z N1 N2 N3)).
  pose proof (block_fstart_lt A ind b1 (NL :: w1 ++ NL :: w2 ++ NL :: ind2) b2 Z) as L.
  cbv zeta in L. apply Nat.ltb_lt in L. rewrite L. reflexivity.
Qed.

(** The result of a block removal when the neighbouring lines are not blank (the computation of
    [clean_single_block_neither], from the seam range on). *)
Lemma block_result_code_lines A ind Z a b :
  wf_utf8 (A ++ NL :: ind) = true -> wf_utf8 (NL :: Z) = true ->
  Forall (fun c => is_blank c = true) ind -> last_line_not_blank A -> first_line_not_blank Z ->
  let s' := A ++ NL :: ind ++ NL :: Z in
  format_block s' (length A + 1 + length ind) = Ok (a, b) ->
  firstn a s' ++ skipn b s' = A ++ NL :: Z.
Proof.
  intros W1 W2 Hbl HA HZ s' Ef.
  set (ls := length A + 1). set (p := length A + 1 + length ind) in *.
  destruct (block_seam A ind Z W1 W2 Hbl) as (Ws & Np & Bp & L1 & L2 & Nl & Hblk).
  destruct (seam_hull _ _ _ Ws Np Bp L1 L2 Nl Hblk) as (H1 & _).
  assert (prev_line_not_blank s' ls) as Hp by (apply prev_line_not_blank_simple; exact HA).
  assert (next_line_not_blank s' p) as Hn.
  { unfold s', p.
    replace (A ++ NL :: ind ++ NL :: Z) with ((A ++ NL :: ind) ++ NL :: Z)
      by (rewrite <- app_assoc; reflexivity).
    replace (length A + 1 + length ind) with (length (A ++ NL :: ind))
      by (rewrite app_length; cbn [length]; lia).
    apply next_line_not_blank_simple. exact HZ. }
  assert (Ok (a, b) = Ok (ls, p + 1)) as E by (rewrite <- Ef; exact (H1 Hp Hn)).
  injection E as -> ->.
  unfold s'. rewrite block_split.
  rewrite firstn_skipn_mid.
  - rewrite <- app_assoc. reflexivity.
  - unfold ls. rewrite app_length. reflexivity.
  - unfold p. rewrite !app_length. cbn [length]. lia.
Qed.

Corollary clean_unwrap_two_lines_code_lines : forall cfg ds de A ind b1 w1 w2 ind2 b2 Z el1 el2,
  let doc := block_doc A ind b1 (NL :: w1 ++ NL :: w2 ++ NL :: ind2) b2 Z in
  good_delims ds de -> good_doc ds de doc -> bodies_ok doc ->
  parse_target b1 = Ok (Some el1) -> parse_target b2 = Ok (Some el2) -> closes el2 el1 ->
  status cfg el1 = Some true -> has_attr S_UNWRAP (el_attrs el1) = true ->
  ~ In NL w1 -> ~ In NL w2 -> ~ In NL ind2 ->
  Forall (fun c => is_blank c = true) ind -> last_line_not_blank A -> first_line_not_blank Z ->
  clean cfg ds de (render ds de doc) = Ok (A ++ NL :: Z).
Proof.
  intros cfg ds de A ind b1 w1 w2 ind2 b2 Z el1 el2 doc Hg Hd Hb P1 P2 Hc Hs Hu N1 N2 N3
         Hbl HA HZ.
  destruct (clean_unwrap_two_lines cfg ds de A ind b1 w1 w2 ind2 b2 Z el1 el2
              Hg Hd Hb P1 P2 Hc Hs Hu N1 N2 N3) as (a & b & Ef & Ec).
  unfold doc. rewrite Ec. f_equal.
  pose proof Hd as (_ & _ & Wt & _).
  apply (block_result_code_lines A ind Z a b); try assumption.
  - apply Wt. left. reflexivity.
  - apply Wt. do 4 right. left. reflexivity.
Qed.

(** One line between the tags: the element is left untouched. *)
Theorem clean_unwrap_one_line : forall cfg ds de A ind b1 w1 ind2 b2 Z el1 el2,
  let doc := block_doc A ind b1 (NL :: w1 ++ NL :: ind2) b2 Z in
  good_delims ds de -> good_doc ds de doc -> bodies_ok doc ->
  parse_target b1 = Ok (Some el1) -> parse_target b2 = Ok (Some el2) -> closes el2 el1 ->
  status cfg el1 = Some true -> has_attr S_UNWRAP (el_attrs el1) = true ->
  ~ In NL w1 -> ~ In NL ind2 ->
  clean cfg ds de (render ds de doc) = Ok (render ds de doc).
Proof.
  intros cfg ds de A ind b1 w1 ind2 b2 Z el1 el2 doc Hg Hd Hb P1 P2 Hc Hs Hu N1 N3.
  apply (clean_empty_forest cfg ds de doc Hg Hd Hb).
  unfold doc.
  rewrite (unwrap_forest cfg A ind b1 _ b2 Z el1 el2 P1 P2 Hc Hs Hu _ _ _
             (unwrap_a_one A ind b1 w1 ind2 b2 Z N1 N3)).
  rewrite Nat.ltb_irrefl. reflexivity.
Qed.

(** No line break between the tags: the element is left untouched. *)
Theorem clean_unwrap_no_line : forall cfg ds de A ind b1 mid b2 Z el1 el2,
  let doc := block_doc A ind b1 mid b2 Z in
  good_delims ds de -> good_doc ds de doc -> bodies_ok doc ->
  parse_target b1 = Ok (Some el1) -> parse_target b2 = Ok (Some el2) -> closes el2 el1 ->
  status cfg el1 = Some true -> has_attr S_UNWRAP (el_attrs el1) = true ->
  ~ In NL mid ->
  clean cfg ds de (render ds de doc) = Ok (render ds de doc).
Proof.
  intros cfg ds de A ind b1 mid b2 Z el1 el2 doc Hg Hd Hb P1 P2 Hc Hs Hu N1.
  apply (clean_empty_forest cfg ds de doc Hg Hd Hb).
  unfold doc.
  rewrite (unwrap_forest cfg A ind b1 _ b2 Z el1 el2 P1 P2 Hc Hs Hu _ _ _
             (unwrap_a_none A ind b1 mid b2 Z N1)).
  rewrite Nat.ltb_irrefl. reflexivity.
Qed.

(* ------------------------------------------------------------------------- *)
(** * Lines, and the dedent at line level *)

(** The lines of a text (split at line breaks; the empty text is one empty line). *)
Fixpoint lines (s : str) : list str :=
  match s with
  | [] => [[]]
  | b :: s' =>
    if beq b NL then [] :: lines s'
    else match lines s' with
         | l :: ls => (b :: l) :: ls
         | [] => [[b]]
         end
  end.

(** Lines joined by line breaks. *)
Fixpoint unlines (ls : list str) : str :=
  match ls with
  | [] => []
  | l :: ls' => match ls' with [] => l | _ :: _ => l ++ NL :: unlines ls' end
  end.

(** Lines, each terminated by a line break. *)
Definition tlines (ls : list str) : str := flat_map (fun l => l ++ [NL]) ls.

(** One line with [ib] leading blanks loses the blanks at [min ofs ib, min (ofs+len) ib). *)
Definition dedent_line (ofs len : nat) (l : str) : str :=
  let ib := leading_blanks l in
  firstn (Nat.min ofs ib) l ++ skipn (Nat.min (ofs + len) ib) l.

(** The dedent of a block of lines whose opening tag stands at column [ofs]:
    [len] = indentation of the first line minus [ofs] (truncated at 0). *)
Definition dedent (ofs : nat) (inner : str) : str :=
  let len := leading_blanks inner - ofs in
  unlines (map (dedent_line ofs len) (lines inner)).

Lemma lines_ne s : lines s <> [].
Proof.
  destruct s as [|b s]; cbn [lines]; [discriminate|].
  destruct (beq b NL); [discriminate|]. destruct (lines s); discriminate.
Qed.

Lemma unlines_cons l ls : ls <> [] -> unlines (l :: ls) = l ++ NL :: unlines ls.
Proof. destruct ls; [congruence | reflexivity]. Qed.

Lemma unlines_lines s : unlines (lines s) = s.
Proof.
  induction s as [|b s IH]; [reflexivity|]. cbn [lines].
  destruct (beq b NL) eqn:E.
  - apply beq_eq in E. subst b. rewrite unlines_cons by apply lines_ne. rewrite IH. reflexivity.
  - pose proof (lines_ne s) as Hne. destruct (lines s) as [|l ls]; [congruence|].
    destruct ls as [|l2 ls].
    + cbn [unlines] in *. rewrite IH. reflexivity.
    + rewrite unlines_cons in * by discriminate. cbn [app]. rewrite IH. reflexivity.
Qed.

Lemma lines_no_nl s : Forall (fun l => ~ In NL l) (lines s).
Proof.
  induction s as [|b s IH]; cbn [lines]; [constructor; [intros []|constructor]|].
  destruct (beq b NL) eqn:E.
  - constructor; [intros []|exact IH].
  - apply beq_neq in E. destruct (lines s) as [|l ls].
    + constructor; [|constructor]. intros [H|[]]. congruence.
    + inversion IH as [|? ? H1 H2]; subst. constructor; [|exact H2].
      intros [H|H]; [congruence | exact (H1 H)].
Qed.

Lemma lines_app_nl l s : ~ In NL l -> lines (l ++ NL :: s) = l :: lines s.
Proof.
  induction l as [|b l IH]; intros Hn; cbn [app lines].
  - replace (beq NL NL) with true by reflexivity. reflexivity.
  - assert (beq b NL = false) as E by (apply beq_neq; intros ->; apply Hn; left; reflexivity).
    rewrite E, IH by (intros H; apply Hn; right; exact H). reflexivity.
Qed.

Lemma lines_single l : ~ In NL l -> lines l = [l].
Proof.
  induction l as [|b l IH]; intros Hn; cbn [lines]; [reflexivity|].
  assert (beq b NL = false) as E by (apply beq_neq; intros ->; apply Hn; left; reflexivity).
  rewrite E, IH by (intros H; apply Hn; right; exact H). reflexivity.
Qed.

Lemma lines_unlines ls : ls <> [] -> Forall (fun l => ~ In NL l) ls -> lines (unlines ls) = ls.
Proof.
  induction ls as [|l ls IH]; intros Hne Hf; [congruence|].
  inversion Hf as [|? ? H1 H2]; subst. destruct ls as [|l2 ls].
  - cbn [unlines]. apply lines_single. exact H1.
  - rewrite unlines_cons by discriminate. rewrite lines_app_nl by exact H1.
    rewrite IH; [reflexivity | discriminate | exact H2].
Qed.

Lemma unlines_tlines ls : ls <> [] -> unlines ls ++ [NL] = tlines ls.
Proof.
  induction ls as [|l ls IH]; intros Hne; [congruence|]. destruct ls as [|l2 ls].
  - cbn [unlines tlines flat_map]. rewrite app_nil_r. reflexivity.
  - rewrite unlines_cons by discriminate. unfold tlines in *. cbn [flat_map] in *.
    rewrite <- IH by discriminate. rewrite <- !app_assoc. reflexivity.
Qed.

Lemma tlines_cons l ls : tlines (l :: ls) = l ++ NL :: tlines ls.
Proof. unfold tlines. cbn [flat_map]. rewrite <- app_assoc. reflexivity. Qed.

Lemma tlines_length_ge ls : length ls <= length (tlines ls).
Proof.
  induction ls as [|l ls IH]; [cbn; lia|]. rewrite tlines_cons. len. lia.
Qed.

(** ** Leading blanks *)

Lemma leading_blanks_app_nl x y : leading_blanks (x ++ NL :: y) = leading_blanks x.
Proof.
  induction x as [|b x IH]; cbn [app leading_blanks]; [reflexivity|].
  destruct (is_blank b); [rewrite IH|]; reflexivity.
Qed.

Lemma leading_blanks_length l : leading_blanks l <= length l.
Proof.
  induction l as [|b l IH]; cbn [leading_blanks length]; [lia|]. destruct (is_blank b); lia.
Qed.

Lemma leading_blanks_first_line s : leading_blanks s = leading_blanks (hd [] (lines s)).
Proof.
  rewrite <- (unlines_lines s) at 1. pose proof (lines_ne s) as Hne.
  destruct (lines s) as [|l ls]; [congruence|]. cbn [hd]. destruct ls as [|l2 ls]; [reflexivity|].
  rewrite unlines_cons by discriminate. apply leading_blanks_app_nl.
Qed.

Lemma leading_blanks_firstn l : forall a, a <= leading_blanks l ->
  Forall (fun c => is_blank c = true) (firstn a l) /\ length (firstn a l) = a.
Proof.
  induction l as [|b l IH]; intros a Ha; cbn [leading_blanks] in Ha.
  - assert (a = 0) as -> by lia. split; [constructor | reflexivity].
  - destruct a as [|a]; [split; [constructor | reflexivity]|].
    destruct (is_blank b) eqn:E; [|lia]. destruct (IH a ltac:(lia)) as [I1 I2].
    cbn [firstn length]. split; [constructor; assumption | lia].
Qed.

Lemma leading_blanks_skipn l : forall b, b <= leading_blanks l ->
  leading_blanks (skipn b l) = leading_blanks l - b.
Proof.
  induction l as [|c l IH]; intros b Hb; cbn [leading_blanks] in *.
  - assert (b = 0) as -> by lia. reflexivity.
  - destruct b as [|b]; [cbn [skipn leading_blanks]; lia|].
    destruct (is_blank c) eqn:E; [|lia]. cbn [skipn]. rewrite IH by lia. lia.
Qed.

Lemma leading_blanks_blank_app x y : Forall (fun c => is_blank c = true) x ->
  leading_blanks (x ++ y) = length x + leading_blanks y.
Proof.
  induction 1 as [|c x Hc _ IH]; [reflexivity|]. cbn [app leading_blanks length].
  rewrite Hc, IH. reflexivity.
Qed.

(** ** Sanity of the line-level dedent *)

(** With [ib] leading blanks, a line keeps [ib - (min (ofs+len) ib - min ofs ib)] of them and its
    non-blank suffix byte for byte. *)
Lemma dedent_line_blanks ofs len l :
  leading_blanks (dedent_line ofs len l) =
  leading_blanks l - (Nat.min (ofs + len) (leading_blanks l) - Nat.min ofs (leading_blanks l)).
Proof.
  unfold dedent_line. set (ib := leading_blanks l).
  destruct (leading_blanks_firstn l (Nat.min ofs ib) ltac:(lia)) as [F1 F2].
  rewrite (leading_blanks_blank_app _ _ F1), F2.
  rewrite leading_blanks_skipn by (fold ib; lia). fold ib. lia.
Qed.

Lemma dedent_line_removed ofs len l :
  Nat.min (ofs + len) (leading_blanks l) - Nat.min ofs (leading_blanks l) =
  Nat.min len (leading_blanks l - ofs).
Proof. lia. Qed.

Lemma dedent_line_suffix ofs len l :
  skipn (leading_blanks (dedent_line ofs len l)) (dedent_line ofs len l) =
  skipn (leading_blanks l) l.
Proof.
  rewrite dedent_line_blanks. unfold dedent_line. set (ib := leading_blanks l).
  destruct (leading_blanks_firstn l (Nat.min ofs ib) ltac:(lia)) as [F1 F2].
  rewrite skipn_app, F2.
  replace (ib - (Nat.min (ofs + len) ib - Nat.min ofs ib) - Nat.min ofs ib)
    with (ib - Nat.min (ofs + len) ib) by lia.
  rewrite skipn_all2 by lia. cbn [app]. rewrite skipn_add. f_equal. lia.
Qed.

Lemma dedent_line_length ofs len l :
  length (dedent_line ofs len l) =
  length l - (Nat.min (ofs + len) (leading_blanks l) - Nat.min ofs (leading_blanks l)).
Proof.
  unfold dedent_line. pose proof (leading_blanks_length l) as L.
  rewrite app_length, firstn_length, skipn_length. lia.
Qed.

Lemma in_firstn_skipn {X} (x : X) n l : In x (firstn n l) \/ In x (skipn n l) -> In x l.
Proof. intros H. rewrite <- (firstn_skipn n l). apply in_or_app. exact H. Qed.

Lemma dedent_line_no_nl ofs len l : ~ In NL l -> ~ In NL (dedent_line ofs len l).
Proof.
  intros Hn H. unfold dedent_line in H. apply in_app_or in H.
  destruct H as [H|H]; apply Hn; [apply (in_firstn_skipn _ _ _ (or_introl H))
                                 | apply (in_firstn_skipn _ _ _ (or_intror H))].
Qed.

(** Nothing happens to a line that is not indented beyond the tag's column. *)
Lemma dedent_line_shallow ofs len l : leading_blanks l <= ofs -> dedent_line ofs len l = l.
Proof.
  intros H. unfold dedent_line.
  rewrite !Nat.min_r by lia. apply firstn_skipn.
Qed.

(** The dedent works line by line: it preserves the number of lines, ... *)
Theorem dedent_lines_map ofs inner :
  lines (dedent ofs inner) =
  map (dedent_line ofs (leading_blanks inner - ofs)) (lines inner).
Proof.
  unfold dedent. apply lines_unlines.
  - pose proof (lines_ne inner). destruct (lines inner); [congruence | discriminate].
  - pose proof (lines_no_nl inner) as H. induction H as [|l ls Hl _ IH]; [constructor|].
    cbn [map]. constructor; [apply dedent_line_no_nl; exact Hl | exact IH].
Qed.

Corollary dedent_line_count ofs inner :
  length (lines (dedent ofs inner)) = length (lines inner).
Proof. rewrite dedent_lines_map. apply map_length. Qed.

(** ... and the first line ends up with exactly [min ofs ib] leading blanks. *)
Theorem dedent_first_line ofs inner :
  leading_blanks (dedent ofs inner) = Nat.min ofs (leading_blanks inner).
Proof.
  rewrite (leading_blanks_first_line (dedent ofs inner)), dedent_lines_map.
  rewrite (leading_blanks_first_line inner).
  pose proof (lines_ne inner) as Hne. destruct (lines inner) as [|l ls]; [congruence|].
  cbn [map hd]. rewrite dedent_line_blanks. lia.
Qed.

(* ------------------------------------------------------------------------- *)
(** * The dedent ranges of a block of lines *)

(** The ranges [dedent_lines] yields for the lines [ls], the first of which starts at [st]. *)
Fixpoint line_ranges (ofs len st : nat) (ls : list str) : list (nat * nat) :=
  match ls with
  | [] => []
  | l :: ls' =>
    let ib := leading_blanks l in
    let a := st + Nat.min ofs ib in
    let b := st + Nat.min (ofs + len) ib in
    (if a =? b then [] else [(a, b)]) ++ line_ranges ofs len (st + length l + 1) ls'
  end.

Lemma dedent_lines_done fuel s e ls0 ofs len : e <= ls0 -> dedent_lines fuel s e ls0 ofs len = [].
Proof.
  intros H. destruct fuel as [|f]; cbn [dedent_lines]; [reflexivity|].
  assert (ls0 <? e = false) as L by (apply Nat.ltb_ge; exact H). rewrite L. reflexivity.
Qed.

Lemma skipn_pre {X} (pre rest : list X) : skipn (length pre) (pre ++ rest) = rest.
Proof. rewrite skipn_app, skipn_all, Nat.sub_diag. reflexivity. Qed.

Lemma dedent_lines_line_ranges : forall ls fuel s pre post ofs len,
  Forall (fun l => ~ In NL l) ls -> wf_utf8 s = true -> s = pre ++ tlines ls ++ post ->
  length ls < fuel ->
  dedent_lines fuel s (length pre + length (tlines ls)) (length pre) ofs len =
  line_ranges ofs len (length pre) ls.
Proof.
  induction ls as [|l ls IH]; intros fuel s pre post ofs len Hf Hw Es Hfu.
  - cbn [tlines flat_map length line_ranges]. apply dedent_lines_done. lia.
  - destruct fuel as [|f]; [cbn [length] in Hfu; lia|].
    assert (~ In NL l) as Hl by (inversion Hf; assumption).
    assert (Forall (fun l => ~ In NL l) ls) as Hls by (inversion Hf; assumption).
    rewrite tlines_cons in *.
    assert (s = pre ++ l ++ NL :: (tlines ls ++ post)) as Es1
      by (rewrite Es, <- app_assoc; reflexivity).
    cbn [dedent_lines line_ranges].
    assert (length pre <? length pre + length (l ++ NL :: tlines ls) = true) as L1
      by (apply Nat.ltb_lt; len; lia).
    rewrite L1.
    rewrite (find_next_lb_eq s (length pre) (length pre + length l) Hw
               (is_next_nl_mid s pre l (tlines ls ++ post) Es1 Hl)).
    assert (length pre + length (l ++ NL :: tlines ls) <? S (length pre + length l) = false) as L2
      by (apply Nat.ltb_ge; len; lia).
    rewrite L2.
    assert (leading_blanks (skipn (length pre) s) = leading_blanks l) as Elb.
    { rewrite Es1 at 1. rewrite skipn_pre. apply leading_blanks_app_nl. }
    rewrite Elb. f_equal.
    replace (S (length pre + length l)) with (length (pre ++ l ++ [NL])) by (len; lia).
    replace (length pre + length (l ++ NL :: tlines ls))
      with (length (pre ++ l ++ [NL]) + length (tlines ls)) by (len; lia).
    replace (length pre + length l + 1) with (length (pre ++ l ++ [NL])) by (len; lia).
    apply (IH f s (pre ++ l ++ [NL]) post); [exact Hls | exact Hw | | cbn [length] in Hfu; lia].
    rewrite Es1, <- !app_assoc. reflexivity.
Qed.

(** ** Deleting positions from a piece of a string *)

Lemma dw_app k P (x y : str) :
  delete_where_from k P (x ++ y) = delete_where_from k P x ++ delete_where_from (k + length x) P y.
Proof.
  revert k. induction x as [|b x IH]; intros k; cbn [app delete_where_from length].
  - rewrite Nat.add_0_r. reflexivity.
  - rewrite IH. replace (S k + length x) with (k + S (length x)) by lia.
    destruct (P k); reflexivity.
Qed.

Lemma dw_none k P (x : str) :
  (forall i, k <= i -> i < k + length x -> P i = false) -> delete_where_from k P x = x.
Proof.
  revert k. induction x as [|b x IH]; intros k H; cbn [delete_where_from]; [reflexivity|].
  cbn [length] in H. rewrite (H k) by lia. f_equal. apply IH. intros i H1 H2. apply H; lia.
Qed.

Lemma dw_all k P (x : str) :
  (forall i, k <= i -> i < k + length x -> P i = true) -> delete_where_from k P x = [].
Proof.
  revert k. induction x as [|b x IH]; intros k H; cbn [delete_where_from]; [reflexivity|].
  cbn [length] in H. rewrite (H k) by lia. apply IH. intros i H1 H2. apply H; lia.
Qed.

Lemma dw_ext k P Q (x : str) :
  (forall i, k <= i -> i < k + length x -> P i = Q i) ->
  delete_where_from k P x = delete_where_from k Q x.
Proof.
  revert k. induction x as [|b x IH]; intros k H; cbn [delete_where_from]; [reflexivity|].
  cbn [length] in H. rewrite (H k) by lia.
  rewrite (IH (S k)) by (intros i H1 H2; apply H; lia). reflexivity.
Qed.

Lemma in_rangeb_true a b i : in_rangeb (a, b) i = true <-> a <= i /\ i < b.
Proof.
  unfold in_rangeb. cbn [fst snd]. rewrite andb_true_iff, Nat.leb_le, Nat.ltb_lt. reflexivity.
Qed.

Lemma in_rangeb_false a b i : in_rangeb (a, b) i = false <-> i < a \/ b <= i.
Proof.
  unfold in_rangeb. cbn [fst snd]. rewrite andb_false_iff, Nat.leb_gt, Nat.ltb_ge. reflexivity.
Qed.

(** One terminated line. *)
Lemma dw_line st P ofs len l :
  (forall i, st <= i -> i < st + length l + 1 ->
     P i = in_rangeb (st + Nat.min ofs (leading_blanks l),
                      st + Nat.min (ofs + len) (leading_blanks l)) i) ->
  delete_where_from st P (l ++ [NL]) = dedent_line ofs len l ++ [NL].
Proof.
  intros H. unfold dedent_line. set (ib := leading_blanks l) in *.
  set (a := Nat.min ofs ib) in *. set (b := Nat.min (ofs + len) ib) in *.
  pose proof (leading_blanks_length l) as Lib. fold ib in Lib.
  assert (a <= b /\ b <= ib) as [Lab Lb] by (unfold a, b; lia).
  assert (l = firstn a l ++ firstn (b - a) (skipn a l) ++ skipn b l) as El.
  { rewrite <- (firstn_skipn a l) at 1. f_equal.
    rewrite <- (firstn_skipn (b - a) (skipn a l)) at 1. f_equal.
    rewrite skipn_add. f_equal. lia. }
  assert (length (firstn a l) = a) as La by (rewrite firstn_length; lia).
  assert (length (firstn (b - a) (skipn a l)) = b - a) as Lm
    by (rewrite firstn_length, skipn_length; lia).
  rewrite El at 1. rewrite <- !app_assoc.
  rewrite (dw_app st P (firstn a l)), (dw_app _ P (firstn (b - a) (skipn a l))). rewrite La, Lm.
  assert (length (skipn b l ++ [NL]) = length l - b + 1) as L3
    by (rewrite app_length, skipn_length; reflexivity).
  rewrite dw_none, dw_all, dw_none.
  - reflexivity.
  - intros i H1 H2. rewrite H by lia. apply in_rangeb_false. lia.
  - intros i H1 H2. rewrite H by lia. apply in_rangeb_true. lia.
  - intros i H1 H2. rewrite H by lia. apply in_rangeb_false. lia.
Qed.

Lemma in_rangesb_line_ranges_cons ofs len st l ls i :
  in_rangesb (line_ranges ofs len st (l :: ls)) i =
  in_rangeb (st + Nat.min ofs (leading_blanks l), st + Nat.min (ofs + len) (leading_blanks l)) i
  || in_rangesb (line_ranges ofs len (st + length l + 1) ls) i.
Proof.
  cbn [line_ranges]. rewrite in_rangesb_app. f_equal.
  destruct (Nat.eqb_spec (st + Nat.min ofs (leading_blanks l))
                         (st + Nat.min (ofs + len) (leading_blanks l))) as [E|E].
  - cbn [in_rangesb existsb]. symmetry. apply in_rangeb_false. lia.
  - cbn [in_rangesb existsb]. apply orb_false_r.
Qed.

Lemma line_ranges_lo ofs len : forall ls st i,
  in_rangesb (line_ranges ofs len st ls) i = true -> st <= i.
Proof.
  induction ls as [|l ls IH]; intros st i H; [discriminate H|].
  rewrite in_rangesb_line_ranges_cons in H. apply orb_true_iff in H. destruct H as [H|H].
  - apply in_rangeb_true in H. lia.
  - apply IH in H. lia.
Qed.

Lemma line_ranges_lo_false ofs len ls st i :
  i < st -> in_rangesb (line_ranges ofs len st ls) i = false.
Proof.
  intros H. destruct (in_rangesb (line_ranges ofs len st ls) i) eqn:E; [|reflexivity].
  apply line_ranges_lo in E. lia.
Qed.

(** A block of terminated lines. *)
Lemma dw_tlines ofs len : forall ls st P,
  (forall i, st <= i -> i < st + length (tlines ls) ->
     P i = in_rangesb (line_ranges ofs len st ls) i) ->
  delete_where_from st P (tlines ls) = tlines (map (dedent_line ofs len) ls).
Proof.
  induction ls as [|l ls IH]; intros st P H; [reflexivity|].
  cbn [map]. rewrite !tlines_cons. rewrite tlines_cons in H.
  change (l ++ NL :: tlines ls) with (l ++ [NL] ++ tlines ls).
  change (dedent_line ofs len l ++ NL :: tlines (map (dedent_line ofs len) ls))
    with (dedent_line ofs len l ++ [NL] ++ tlines (map (dedent_line ofs len) ls)).
  rewrite !app_assoc. rewrite dw_app. f_equal.
  - apply dw_line. intros i H1 H2. rewrite H by (len; lia).
    rewrite in_rangesb_line_ranges_cons, line_ranges_lo_false by lia. apply orb_false_r.
  - replace (st + length (l ++ [NL])) with (st + length l + 1) by (len; lia).
    apply IH. intros i H1 H2.
    rewrite H by (len; lia).
    rewrite in_rangesb_line_ranges_cons.
    pose proof (leading_blanks_length l) as Lib.
    assert (in_rangeb (st + Nat.min ofs (leading_blanks l),
                       st + Nat.min (ofs + len) (leading_blanks l)) i = false) as ->
      by (apply in_rangeb_false; lia).
    reflexivity.
Qed.

(* ------------------------------------------------------------------------- *)
(** * Sorting and merging ranges that are already in order *)

Lemma sort_ranges_sorted : forall rs lo, sorted_nonempty_from lo rs -> sort_ranges rs = rs.
Proof.
  induction rs as [|[a b] rs IH]; intros lo H; [reflexivity|].
  cbn [sorted_nonempty_from] in H. destruct H as (H1 & H2 & H3).
  unfold sort_ranges in *. cbn [fold_right]. rewrite (IH b H3).
  destruct rs as [|[a' b'] rs]; [reflexivity|].
  cbn [sorted_nonempty_from] in H3. destruct H3 as (H4 & _).
  cbn [insert_sorted fst]. assert (a <=? a' = true) as L by (apply Nat.leb_le; lia).
  rewrite L. reflexivity.
Qed.

(** New ranges that all start behind the start of the first range: with the cursor on the first
    range, each one is inserted right behind it. *)
Lemma merge_ranges_loop_first : forall (rev_new : list Format.range) (r0 : Format.range) rest,
  (forall nr, In nr rev_new -> fst r0 < fst nr) ->
  merge_ranges_loop (r0 :: rest) (Some 0) rev_new = Ok (r0 :: rev rev_new ++ rest).
Proof.
  induction rev_new as [|nr rn IH]; intros r0 rest H; [reflexivity|].
  cbn [merge_ranges_loop seek index nth_error bind].
  assert (fst r0 <? fst nr = true) as L by (apply Nat.ltb_lt; apply H; left; reflexivity).
  rewrite L. cbn [bind]. unfold insert_at. cbn [Nat.add length Nat.leb firstn skipn app bind].
  rewrite (IH r0 (nr :: rest)) by (intros x Hx; apply H; right; exact Hx).
  cbn [rev]. rewrite <- app_assoc. reflexivity.
Qed.

(** Two ranges and new ranges that all start strictly between their starts. *)
Lemma merge_ranges_between (r1 r2 : Format.range) (new : list Format.range) :
  (forall nr, In nr new -> fst r1 < fst nr /\ fst nr <= fst r2) ->
  merge_ranges [r1; r2] new = Ok (r1 :: new ++ [r2]).
Proof.
  intros H. unfold merge_ranges. cbn [length Nat.sub].
  assert (forall nr, In nr (rev new) -> fst r1 < fst nr /\ fst nr <= fst r2) as H'
    by (intros nr Hin; apply H; apply in_rev; exact Hin).
  rewrite <- (rev_involutive new) at 2. destruct (rev new) as [|nr rn]; [reflexivity|].
  cbn [merge_ranges_loop seek index nth_error bind].
  destruct (H' nr (or_introl eq_refl)) as [K1 K2].
  assert (fst r2 <? fst nr = false) as L2 by (apply Nat.ltb_ge; exact K2).
  assert (fst r1 <? fst nr = true) as L1 by (apply Nat.ltb_lt; exact K1).
  rewrite L2, L1. cbn [bind]. unfold insert_at.
  cbn [Nat.add length Nat.leb firstn skipn app bind].
  rewrite (merge_ranges_loop_first rn r1 [nr; r2])
    by (intros x Hx; apply H'; right; exact Hx).
  cbn [rev]. rewrite <- app_assoc. reflexivity.
Qed.

(** On ranges in ascending order, [merge_overlapped_ranges] keeps the set of positions. *)
Lemma mo_fold_superset : forall (rest : list Spec.Ranges.range) lo done cur i,
  fst cur <= lo -> sorted_from lo rest ->
  in_ranges (done ++ [cur]) i \/ in_ranges rest i ->
  in_ranges (mo_out (fold_left mo_step rest (done, cur))) i.
Proof.
  induction rest as [|[a b] rest IH]; intros lo done [ca cb] i Hlo Hs Hin.
  - cbn [fold_left]. unfold mo_out. cbn [fst snd]. destruct Hin as [Hin|(r & [] & _)]. exact Hin.
  - cbn [sorted_from] in Hs. destruct Hs as (S1 & S2 & S3). cbn [fst] in Hlo.
    cbn [fold_left]. unfold mo_step at 2. cbn [fst snd].
    destruct (Nat.leb_spec a cb) as [L|L].
    + apply (IH b); [cbn [fst]; lia | exact S3 |].
      destruct Hin as [Hin|Hin].
      * left. apply in_ranges_app in Hin. apply in_ranges_app. destruct Hin as [Hin|Hin].
        -- left. exact Hin.
        -- right. apply in_ranges_single in Hin. apply in_ranges_single.
           unfold Spec.Ranges.in_range in *. cbn [fst snd] in *. lia.
      * destruct Hin as (r & [<-|Hr] & Hri).
        -- left. apply in_ranges_app. right. apply in_ranges_single.
           unfold Spec.Ranges.in_range in *. cbn [fst snd] in *. lia.
        -- right. exists r. split; assumption.
    + apply (IH b); [cbn [fst]; lia | exact S3 |].
      destruct Hin as [Hin|Hin].
      * left. apply in_ranges_app. left. exact Hin.
      * destruct Hin as (r & [<-|Hr] & Hri).
        -- left. apply in_ranges_app. right. apply in_ranges_single. exact Hri.
        -- right. exists r. split; assumption.
Qed.

Theorem merge_overlapped_same : forall rs lo i, sorted_from lo rs ->
  in_rangesb (merge_overlapped_ranges rs) i = in_rangesb rs i.
Proof.
  intros rs lo i Hs.
  assert (in_ranges (merge_overlapped_ranges rs) i <-> in_ranges rs i) as Hiff.
  { split.
    - apply merge_overlapped_subset. intros r Hin. apply (sorted_from_In rs lo r Hs Hin).
    - destruct rs as [|[a b] rest]; [intros H; exact H|].
      rewrite merge_overlapped_unfold. intros Hin.
      cbn [sorted_from] in Hs. destruct Hs as (_ & S2 & S3).
      apply (mo_fold_superset rest b [] (a, b) i); [cbn [fst]; exact S2 | exact S3 |].
      destruct Hin as (r & [<-|Hr] & Hri).
      + left. exists (a, b). split; [left; reflexivity | exact Hri].
      + right. exists r. split; assumption. }
  destruct (in_rangesb rs i) eqn:E.
  - apply in_rangesb_spec. apply Hiff. apply in_rangesb_spec. exact E.
  - destruct (in_rangesb (merge_overlapped_ranges rs) i) eqn:E'; [|reflexivity].
    apply in_rangesb_spec in E'. apply Hiff in E'. apply in_rangesb_spec in E'. congruence.
Qed.

(* ------------------------------------------------------------------------- *)
(** * Part 2, the useful form: the seams and the dedent ranges of the remaining text *)

(** The first (resp. last) line of [inner] contains a byte that is not whitespace. *)
Definition first_line_has_code (inner : str) : Prop :=
  exists t c r, inner = t ++ c :: r /\ is_ws c = false /\ ~ In NL t.
Definition last_line_has_code (inner : str) : Prop :=
  exists r c t, inner = r ++ c :: t /\ is_ws c = false /\ ~ In NL t.

Lemma unwrap_rest_tail_wf A ind inner Z :
  wf_utf8 (unwrap_rest A ind inner Z) = true -> wf_utf8 (NL :: inner ++ NL :: NL :: Z) = true.
Proof.
  intros H. apply Utf8Lemmas.wf_utf8_WF in H. apply Utf8Lemmas.wf_utf8_WF.
  rewrite unwrap_rest_split1 in H. apply (Utf8Lemmas.WF_app_inv_r _ _ H). reflexivity.
Qed.

(** The seam of the opening part: the tag's indentation and its line break go. *)
Lemma unwrap_seam1 A ind inner Z :
  wf_utf8 (A ++ NL :: ind) = true -> wf_utf8 (unwrap_rest A ind inner Z) = true ->
  Forall (fun c => is_blank c = true) ind -> last_line_not_blank A -> first_line_has_code inner ->
  format_block (unwrap_rest A ind inner Z) (length A + 1 + length ind) =
  Ok (length A + 1, length A + 1 + length ind + 1).
Proof.
  intros W1 Hw Hbl HA (t & c & r & Ei & Hc & Ht).
  pose proof (unwrap_rest_tail_wf A ind inner Z Hw) as W2.
  destruct (block_seam A ind (inner ++ NL :: NL :: Z) W1 W2 Hbl)
    as (Ws & Np & Bp & L1 & L2 & Nl & Hblk).
  destruct (seam_hull _ _ _ Ws Np Bp L1 L2 Nl Hblk) as (H1 & _).
  apply H1.
  - apply prev_line_not_blank_simple. exact HA.
  - replace (A ++ NL :: ind ++ NL :: inner ++ NL :: NL :: Z)
      with ((A ++ NL :: ind) ++ NL :: inner ++ NL :: NL :: Z)
      by (rewrite <- app_assoc; reflexivity).
    replace (length A + 1 + length ind) with (length (A ++ NL :: ind)) by (len; lia).
    apply next_line_not_blank_simple. right. exists t, c, (r ++ NL :: NL :: Z).
    split; [|split; assumption]. rewrite Ei, <- app_assoc. reflexivity.
Qed.

(** The seam of the closing part: only the line break left behind goes. *)
Lemma unwrap_seam2 A ind inner Z :
  wf_utf8 (unwrap_rest A ind inner Z) = true ->
  first_line_not_blank Z -> last_line_has_code inner ->
  let p2 := length A + 1 + length ind + 1 + length inner + 1 in
  format_block (unwrap_rest A ind inner Z) p2 = Ok (p2, p2 + 1).
Proof.
  intros Hw HZ (r & c & t & Ei & Hc & Ht) p2.
  destruct (unwrap_rest_facts A ind inner Z) as (_ & Nq & Np & _). fold p2 in Nq, Np.
  destruct (seam_hull (unwrap_rest A ind inner Z) p2 p2 Hw Np (UnwrapProofs.NL_boundary _ _ Np))
    as (H1 & _); [unfold p2; lia | lia | exact Nq | intros i b K1 K2; lia |].
  apply H1.
  - rewrite unwrap_rest_split2.
    replace p2 with (length (A ++ NL :: ind ++ NL :: inner) + 1) by (unfold p2; len; lia).
    apply prev_line_not_blank_simple. right.
    exists (A ++ NL :: ind ++ NL :: r), c, t. split; [|split; assumption].
    rewrite Ei. repeat (rewrite <- !app_assoc; cbn [app]). reflexivity.
  - rewrite unwrap_rest_split3.
    replace p2 with (length (A ++ NL :: ind ++ NL :: inner ++ [NL])) by (unfold p2; len; lia).
    apply next_line_not_blank_simple. exact HZ.
Qed.

Lemma unwrap_rest_split4 A ind inner Z :
  unwrap_rest A ind inner Z = (A ++ NL :: ind ++ [NL]) ++ tlines (lines inner) ++ NL :: Z.
Proof.
  rewrite <- (unlines_tlines (lines inner) (lines_ne inner)), unlines_lines.
  unfold unwrap_rest. repeat (rewrite <- !app_assoc; cbn [app]). reflexivity.
Qed.

Lemma tlines_lines_length inner : length (tlines (lines inner)) = length inner + 1.
Proof.
  rewrite <- (unlines_tlines (lines inner) (lines_ne inner)), unlines_lines. len. reflexivity.
Qed.

(** The dedent ranges: offset = the tag's indentation, length = the indentation of the first
    kept line minus the offset, one range per kept line. *)
Lemma unwrap_dedent_ranges A ind inner Z :
  wf_utf8 (A ++ NL :: ind) = true -> wf_utf8 (unwrap_rest A ind inner Z) = true ->
  Forall (fun c => is_blank c = true) ind ->
  let p1 := length A + 1 + length ind in
  let p2 := p1 + 1 + length inner + 1 in
  block_indent_remover (unwrap_rest A ind inner Z) p1 p2 =
  Ok (line_ranges (length ind) (leading_blanks inner - length ind) (p1 + 1) (lines inner)).
Proof.
  intros W1 Hw Hbl p1 p2. set (s' := unwrap_rest A ind inner Z) in *.
  pose proof (unwrap_rest_tail_wf A ind inner Z Hw) as W2.
  destruct (block_seam A ind (inner ++ NL :: NL :: Z) W1 W2 Hbl)
    as (Ws & Np & Bp & L1 & L2 & Nl & Hblk).
  change (A ++ NL :: ind ++ NL :: inner ++ NL :: NL :: Z) with s' in *. fold p1 in Np, Bp, L2, Hblk.
  rewrite (block_indent_exact s' p1 p2 Hw). cbv zeta.
  rewrite (seam_first_prev s' (length A + 1) p1)
    by (unfold seam; repeat split; assumption).
  rewrite (find_next_lb_eq s' p1 p1 Hw)
    by (split; [lia | split; [exact Np | intros j J1 J2; lia]]).
  replace (p1 - (length A + 1 - 1) - 1) with (length ind) by (unfold p1; lia).
  assert (S p1 = length (A ++ NL :: ind ++ [NL])) as E1 by (unfold p1; len; lia).
  assert (leading_blanks (skipn (S p1) s') = leading_blanks inner) as ->.
  { unfold s'. rewrite unwrap_rest_split2, E1.
    replace (A ++ NL :: ind ++ NL :: inner) with ((A ++ NL :: ind ++ [NL]) ++ inner)
      by (repeat (rewrite <- !app_assoc; cbn [app]); reflexivity).
    rewrite <- app_assoc, skipn_pre. apply leading_blanks_app_nl. }
  f_equal.
  replace p2 with (length (A ++ NL :: ind ++ [NL]) + length (tlines (lines inner)))
    by (rewrite tlines_lines_length; unfold p2, p1; len; lia).
  replace (p1 + 1) with (length (A ++ NL :: ind ++ [NL])) by lia. rewrite E1.
  apply (dedent_lines_line_ranges (lines inner) _ s' _ (NL :: Z)).
  - apply lines_no_nl.
  - exact Hw.
  - apply unwrap_rest_split4.
  - pose proof (tlines_length_ge (lines inner)) as K. rewrite tlines_lines_length in K.
    unfold s', unwrap_rest. len. unfold str in *. lia.
Qed.

Lemma unwrap_rest_split5 A ind inner Z :
  unwrap_rest A ind inner Z =
  (A ++ [NL]) ++ (ind ++ [NL]) ++ tlines (lines inner) ++ [NL] ++ Z.
Proof.
  rewrite <- (unlines_tlines (lines inner) (lines_ne inner)), unlines_lines.
  unfold unwrap_rest. repeat (rewrite <- !app_assoc; cbn [app]). reflexivity.
Qed.

(** Deleting the two seam ranges and the dedent ranges from the remaining text. *)
Lemma unwrap_delete A ind inner Z (P : nat -> bool) ofs len :
  let p1 := length A + 1 + length ind in
  let p2 := p1 + 1 + length inner + 1 in
  (forall i, P i = in_rangeb (length A + 1, p1 + 1) i
                   || in_rangesb (line_ranges ofs len (p1 + 1) (lines inner)) i
                   || in_rangeb (p2, p2 + 1) i) ->
  (forall i, p2 - 1 <= i -> in_rangesb (line_ranges ofs len (p1 + 1) (lines inner)) i = false) ->
  delete_where P (unwrap_rest A ind inner Z) =
  A ++ NL :: unlines (map (dedent_line ofs len) (lines inner)) ++ NL :: Z.
Proof.
  intros p1 p2 HP Hhi.
  set (dl := line_ranges ofs len (p1 + 1) (lines inner)) in *.
  assert (forall i, i < p1 + 1 -> in_rangesb dl i = false) as Hlo
    by (intros i Hi; apply line_ranges_lo_false; exact Hi).
  pose proof (tlines_lines_length inner) as Lt.
  rewrite unwrap_rest_split5. unfold delete_where.
  rewrite (dw_app 0 P (A ++ [NL])), (dw_app _ P (ind ++ [NL])),
          (dw_app _ P (tlines (lines inner))), (dw_app _ P [NL]).
  rewrite !app_length. cbn [length Nat.add]. rewrite Lt.
  rewrite (dw_none 0 P (A ++ [NL])).
  2:{ intros i H1 H2. rewrite app_length in H2. cbn [length] in H2. rewrite HP, Hlo by lia.
      assert (in_rangeb (length A + 1, p1 + 1) i = false) as -> by (apply in_rangeb_false; lia).
      assert (in_rangeb (p2, p2 + 1) i = false) as -> by (apply in_rangeb_false; unfold p2; lia).
      reflexivity. }
  rewrite (dw_all _ P (ind ++ [NL])).
  2:{ intros i H1 H2. rewrite app_length in H2. cbn [length] in H2. rewrite HP.
      assert (in_rangeb (length A + 1, p1 + 1) i = true) as ->
        by (apply in_rangeb_true; unfold p1; lia).
      reflexivity. }
  rewrite (dw_tlines ofs len (lines inner) _ P).
  2:{ intros i H1 H2. rewrite Lt in H2. rewrite HP.
      assert (in_rangeb (length A + 1, p1 + 1) i = false) as ->
        by (apply in_rangeb_false; unfold p1; lia).
      assert (in_rangeb (p2, p2 + 1) i = false) as ->
        by (apply in_rangeb_false; unfold p2, p1; lia).
      rewrite orb_false_r. cbn [orb]. unfold dl.
      replace (length A + 1 + (length ind + 1)) with (p1 + 1) by (unfold p1; lia). reflexivity. }
  rewrite (dw_all _ P [NL]).
  2:{ intros i H1 H2. cbn [length] in H2. rewrite HP.
      assert (in_rangeb (p2, p2 + 1) i = true) as ->
        by (apply in_rangeb_true; unfold p2, p1; lia).
      apply orb_true_r. }
  rewrite (dw_none _ P Z).
  2:{ intros i H1 H2. rewrite HP, Hhi by (unfold p2, p1; lia).
      assert (in_rangeb (length A + 1, p1 + 1) i = false) as ->
        by (apply in_rangeb_false; unfold p1; lia).
      assert (in_rangeb (p2, p2 + 1) i = false) as ->
        by (apply in_rangeb_false; unfold p2, p1; lia).
      reflexivity. }
  assert (map (dedent_line ofs len) (lines inner) <> []) as Hne.
  { pose proof (lines_ne inner). destruct (lines inner); [congruence | discriminate]. }
  rewrite <- (unlines_tlines _ Hne).
  repeat (rewrite <- !app_assoc; cbn [app]). reflexivity.
Qed.

(** The main theorem in its useful form: the four lines go, the kept lines are dedented. *)
Theorem clean_unwrap_block_code_lines :
  forall cfg ds de A ind b1 w1 inner w2 ind2 b2 Z el1 el2,
  let doc := unwrap_doc A ind b1 w1 inner w2 ind2 b2 Z in
  good_delims ds de -> good_doc ds de doc -> bodies_ok doc ->
  parse_target b1 = Ok (Some el1) -> parse_target b2 = Ok (Some el2) -> closes el2 el1 ->
  status cfg el1 = Some true -> has_attr S_UNWRAP (el_attrs el1) = true ->
  ~ In NL w1 -> ~ In NL w2 -> ~ In NL ind2 ->
  Forall (fun c => is_blank c = true) ind -> last_line_not_blank A -> first_line_not_blank Z ->
  first_line_has_code inner -> last_line_has_code inner ->
  clean cfg ds de (render ds de doc) = Ok (A ++ NL :: dedent (length ind) inner ++ NL :: Z).
Proof.
  intros cfg ds de A ind b1 w1 inner w2 ind2 b2 Z el1 el2 doc Hg Hd Hb P1 P2 Hc Hs Hu
         N1 N2 N3 Hbl HA HZ Hfi Hla.
  destruct (clean_unwrap_block cfg ds de A ind b1 w1 inner w2 ind2 b2 Z el1 el2
              Hg Hd Hb P1 P2 Hc Hs Hu N1 N2 N3)
    as (a1 & c1 & a2 & c2 & bl & merged & F1 & F2 & Fb & Fm & Hclean).
  fold doc in Hclean. rewrite Hclean. f_equal. clear Hclean.
  destruct (unwrap_doc_wf ds de A ind b1 w1 inner w2 ind2 b2 Z Hd) as (W1 & W2 & W3).
  pose proof (unwrap_rest_wf A ind w1 inner w2 ind2 Z W1 W2 W3) as Hw.
  set (s' := unwrap_rest A ind inner Z) in *.
  set (p1 := length A + 1 + length ind) in *.
  set (p2 := p1 + 1 + length inner + 1) in *.
  set (ofs := length ind). set (len := leading_blanks inner - ofs).
  set (dl := line_ranges ofs len (p1 + 1) (lines inner)).
  (* the three formatter results *)
  pose proof (unwrap_seam1 A ind inner Z W1 Hw Hbl HA Hfi) as E1.
  fold s' in E1. fold p1 in E1. rewrite E1 in F1. injection F1 as <- <-.
  pose proof (unwrap_seam2 A ind inner Z Hw HZ Hla) as E2. cbv zeta in E2.
  fold s' in E2. fold p1 in E2. fold p2 in E2. rewrite E2 in F2. injection F2 as <- <-.
  pose proof (unwrap_dedent_ranges A ind inner Z W1 Hw Hbl) as E3. cbv zeta in E3.
  fold s' in E3. fold p1 in E3. fold p2 in E3. fold ofs in E3. fold len in E3. fold dl in E3.
  destruct (block_indent_spec s' p1 p2 dl Hw E3) as (Hsnf & Hbd).
  rewrite E3 in Fb. injection Fb as <-.
  (* the merged list *)
  assert (merge_ranges [(length A + 1, p1 + 1); (p2, p2 + 1)] (sort_ranges dl) =
          Ok ((length A + 1, p1 + 1) :: dl ++ [(p2, p2 + 1)])) as Fm'.
  { rewrite (sort_ranges_sorted dl _ Hsnf). apply merge_ranges_between.
    intros nr Hin. cbn [fst]. destruct (MarkerProofs.snf_in dl _ nr Hsnf Hin) as (K1 & K2 & _).
    destruct (Hbd nr Hin) as (K3 & _). unfold p1 in *. lia. }
  pose proof (eq_trans (eq_sym Fm) Fm') as Em. injection Em as ->. clear Fm Fm'.
  set (R := (length A + 1, p1 + 1) :: dl ++ [(p2, p2 + 1)]).
  assert (sorted_from 0 R) as HsR.
  { unfold R. cbn [sorted_from]. split; [lia|]. split; [unfold p1; lia|].
    apply sorted_from_snoc. split; [|split; [|split]].
    - replace (p1 + 1) with (S p1) by lia. apply sorted_nonempty_sorted. exact Hsnf.
    - intros r Hin. destruct (Hbd r Hin) as (K3 & _). lia.
    - unfold p2. lia.
    - lia. }
  unfold delete_ranges.
  rewrite (delete_where_ext _ (in_rangesb R) s')
    by (intros i _; apply (merge_overlapped_same R 0 i HsR)).
  unfold s', dedent. fold ofs. fold len.
  apply (unwrap_delete A ind inner Z (in_rangesb R) ofs len).
  - intros i. unfold R. rewrite in_rangesb_cons, in_rangesb_app. fold p1. fold dl.
    cbn [in_rangesb existsb]. rewrite orb_false_r, orb_assoc. reflexivity.
  - intros i Hi. fold p1. fold dl. apply in_rangesb_false. intros r Hin.
    destruct (Hbd r Hin) as (K3 & _). apply in_rangeb_false. right. fold p1 p2 in Hi.
    destruct r as [ra rb]. cbn [snd] in *. lia.
Qed.

(* ------------------------------------------------------------------------- *)
(** * A concrete instance *)

(** "tl to='2000-01-01 00:00:00' unwrap-block" *)
Definition ux_b1 : str :=
  ex_b1 ++ [32;117;110;119;114;97;112;45;98;108;111;99;107]%N.
Definition ux_el1 : element :=
  mkElement [116;108]%N
    [([116;111]%N, Some [50;48;48;48;45;48;49;45;48;49;32;48;48;58;48;48;58;48;48]%N);
     (S_UNWRAP, None)].
Definition ux_w1 : str := [32;32;123]%N.                              (* "  {" *)
Definition ux_inner : str := [32;32;32;32;120;10;10;32;32;32;32;32;32;121]%N. (* "    x\n\n      y" *)
Definition ux_w2 : str := [32;32;125]%N.                              (* "  }" *)
Definition ux_ind2 : str := [32;32]%N.
Definition ux_doc : list item :=
  unwrap_doc ex_A ex_ind ux_b1 ux_w1 ux_inner ux_w2 ux_ind2 ex_b2 ex_Z.

(** The hypotheses of the theorems are satisfiable; the rendering
    "a\n  <tl to='2000-01-01 00:00:00' unwrap-block>\n  {\n    x\n\n      y\n  }\n  </tl>\nb"
    is cleaned to "a\n  x\n\n    y\nb": the two tag lines and the two wrapper lines go, the kept
    lines lose 2 = 4 - 2 blanks (the empty line loses nothing). *)
Example unwrap_example :
  good_delims ex_ds ex_de /\ good_doc ex_ds ex_de ux_doc /\ bodies_ok ux_doc /\
  parse_target ux_b1 = Ok (Some ux_el1) /\ parse_target ex_b2 = Ok (Some ex_el2) /\
  closes ex_el2 ux_el1 /\ status ex_cfg ux_el1 = Some true /\
  has_attr S_UNWRAP (el_attrs ux_el1) = true /\
  ~ In NL ux_w1 /\ ~ In NL ux_w2 /\ ~ In NL ux_ind2 /\
  Forall (fun c => is_blank c = true) ex_ind /\
  last_line_not_blank ex_A /\ first_line_not_blank ex_Z /\
  first_line_has_code ux_inner /\ last_line_has_code ux_inner /\
  render ex_ds ex_de ux_doc =
    [97;10;32;32;60;116;108;32;116;111;61;39;50;48;48;48;45;48;49;45;48;49;32;48;48;58;48;48;58;48;
     48;39;32;117;110;119;114;97;112;45;98;108;111;99;107;62;10;32;32;123;10;32;32;32;32;120;10;10;
     32;32;32;32;32;32;121;10;32;32;125;10;32;32;60;47;116;108;62;10;98]%N /\
  markers_of ex_cfg ex_ds ex_de (render ex_ds ex_de ux_doc) =
    Ok [((4, 50), Some 1); ((66, 77), Some 0)] /\
  dedent (length ex_ind) ux_inner = [32;32;120;10;10;32;32;32;32;121]%N /\
  clean ex_cfg ex_ds ex_de (render ex_ds ex_de ux_doc) =
    Ok [97;10;32;32;120;10;10;32;32;32;32;121;10;98]%N.
Proof.
  assert (good_delims ex_ds ex_de) as Hg.
  { unfold good_delims, ex_ds, ex_de. repeat split; try discriminate; try reflexivity;
      intros [H|[]]; discriminate H. }
  assert (good_doc ex_ds ex_de ux_doc) as Hd.
  { unfold good_doc, ux_doc, unwrap_doc, block_doc. split; [|split; [|split]].
    - cbn [normal]. repeat split; discriminate.
    - intros i Hi. cbn [In] in Hi.
      repeat (destruct Hi as [<-|Hi]); [..|contradiction];
        apply disjoint_from_check; vm_compute; reflexivity.
    - intros t Ht. cbn [In] in Ht.
      repeat (destruct Ht as [Ht|Ht]); try discriminate Ht; try contradiction;
        injection Ht as <-; vm_compute; reflexivity.
    - intros b Hb'. cbn [In] in Hb'.
      repeat (destruct Hb' as [Hb'|Hb']); try discriminate Hb'; try contradiction;
        injection Hb' as <-; vm_compute; reflexivity. }
  assert (bodies_ok ux_doc) as Hb.
  { intros b Hb'. unfold ux_doc, unwrap_doc, block_doc in Hb'. cbn [In] in Hb'.
    repeat (destruct Hb' as [Hb'|Hb']); try discriminate Hb'; try contradiction;
      injection Hb' as <-; vm_compute; lia. }
  assert (parse_target ux_b1 = Ok (Some ux_el1)) as P1 by (vm_compute; reflexivity).
  assert (parse_target ex_b2 = Ok (Some ex_el2)) as P2 by (vm_compute; reflexivity).
  assert (closes ex_el2 ux_el1) as Hc by (apply closes_slash; reflexivity).
  assert (status ex_cfg ux_el1 = Some true) as Hs by (vm_compute; reflexivity).
  assert (has_attr S_UNWRAP (el_attrs ux_el1) = true) as Hu by (vm_compute; reflexivity).
  assert (forall (x : str), existsb (N.eqb NL) x = false -> ~ In NL x) as Hno.
  { intros x E Hin. assert (existsb (N.eqb NL) x = true) as E'; [|congruence].
    apply existsb_exists. exists NL. split; [exact Hin | apply N.eqb_refl]. }
  assert (~ In NL ux_w1) as N1 by (apply Hno; reflexivity).
  assert (~ In NL ux_w2) as N2 by (apply Hno; reflexivity).
  assert (~ In NL ux_ind2) as N3 by (apply Hno; reflexivity).
  assert (Forall (fun c => is_blank c = true) ex_ind) as Hbl by (repeat constructor).
  assert (last_line_not_blank ex_A) as HA by (left; apply Hno; reflexivity).
  assert (first_line_not_blank ex_Z) as HZ by (left; apply Hno; reflexivity).
  assert (first_line_has_code ux_inner) as Hfi.
  { exists [32;32;32;32]%N, 120%N, [10;10;32;32;32;32;32;32;121]%N.
    split; [reflexivity|]. split; [reflexivity | apply Hno; reflexivity]. }
  assert (last_line_has_code ux_inner) as Hla.
  { exists [32;32;32;32;120;10;10;32;32;32;32;32;32]%N, 121%N, []%N.
    split; [reflexivity|]. split; [reflexivity | intros []]. }
  repeat (split; [assumption|]).
  split; [vm_compute; reflexivity|].
  split.
  { (* by the marker theorem, not by running the front end *)
    exact (unwrap_markers ex_cfg ex_ds ex_de ex_A ex_ind ux_b1 ux_w1 ux_inner ux_w2 ux_ind2
             ex_b2 ex_Z ux_el1 ex_el2 Hg Hd Hb P1 P2 Hc Hs Hu N1 N2 N3). }
  split; [vm_compute; reflexivity|].
  (* by the theorem, not by running [clean] *)
  exact (clean_unwrap_block_code_lines ex_cfg ex_ds ex_de ex_A ex_ind ux_b1 ux_w1 ux_inner
           ux_w2 ux_ind2 ex_b2 ex_Z ux_el1 ex_el2 Hg Hd Hb P1 P2 Hc Hs Hu N1 N2 N3
           Hbl HA HZ Hfi Hla).
Qed.

(** The same values by running the model. *)
Example unwrap_example_run :
  markers_of ex_cfg ex_ds ex_de (render ex_ds ex_de ux_doc) =
    Ok [((4, 50), Some 1); ((66, 77), Some 0)] /\
  clean ex_cfg ex_ds ex_de (render ex_ds ex_de ux_doc) =
    Ok [97;10;32;32;120;10;10;32;32;32;32;121;10;98]%N.
Proof. split; vm_compute; reflexivity. Qed.

(** The boundary cases on concrete documents (by running the model): two lines between the tags
    ("a\n  <tl .. unwrap-block>\n  {\n  }\n  </tl>\nb" gives "a\nb"), one line and no line break
    (unchanged). *)
Example unwrap_example_boundaries :
  let two := block_doc ex_A ex_ind ux_b1 (NL :: ux_w1 ++ NL :: ux_w2 ++ NL :: ux_ind2) ex_b2 ex_Z in
  let one := block_doc ex_A ex_ind ux_b1 (NL :: ux_w1 ++ NL :: ux_ind2) ex_b2 ex_Z in
  let none := block_doc ex_A ex_ind ux_b1 [120]%N ex_b2 ex_Z in
  clean ex_cfg ex_ds ex_de (render ex_ds ex_de two) = Ok [97;10;98]%N /\
  clean ex_cfg ex_ds ex_de (render ex_ds ex_de one) = Ok (render ex_ds ex_de one) /\
  clean ex_cfg ex_ds ex_de (render ex_ds ex_de none) = Ok (render ex_ds ex_de none).
Proof. repeat split; vm_compute; reflexivity. Qed.

(** Outside the side conditions of the useful form the general form still applies; e.g. with a
    blank last kept line ("    x\n  ", two blanks = the tag's column, nothing to dedent) the
    closing seam also removes the blanks of that line: the output is "a\n  x\n\nb", not
    "a\n  x\n  \nb" as the line-level formula alone would give (so [last_line_has_code] cannot
    simply be dropped). *)
Example unwrap_example_blank_last_line :
  clean ex_cfg ex_ds ex_de
    (render ex_ds ex_de
       (unwrap_doc ex_A ex_ind ux_b1 ux_w1 [32;32;32;32;120;10;32;32]%N ux_w2 ux_ind2 ex_b2 ex_Z))
  = Ok [97;10;32;32;120;10;10;98]%N /\
  dedent (length ex_ind) [32;32;32;32;120;10;32;32]%N = [32;32;120;10;32;32]%N.
Proof. split; vm_compute; reflexivity. Qed.

(* ------------------------------------------------------------------------- *)
Print Assumptions unwrap_markers.
Print Assumptions unwrap_removed.
Print Assumptions clean_unwrap_block.
Print Assumptions dedent_lines_map.
Print Assumptions dedent_first_line.
Print Assumptions dedent_line_suffix.
Print Assumptions merge_overlapped_same.
Print Assumptions clean_unwrap_block_code_lines.
Print Assumptions clean_unwrap_two_lines.
Print Assumptions clean_unwrap_two_lines_code_lines.
Print Assumptions clean_unwrap_one_line.
Print Assumptions clean_unwrap_no_line.
Print Assumptions unwrap_example.
