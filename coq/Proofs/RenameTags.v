(** C18, tag names: renaming the NAME inside a tag body preserves parsing, pairing and the removal
    decision.

    Part 1: renamings of names ([slashes], [rn], [admissible]).
    Part 2: renamings of structured tags ([rename_tag]): well-formedness and parsing.
    Part 3: the decisions ([status], [el_readyb], unwrap-block) under the renamed configuration.
    Part 4: pairing of an opening and a closing tag.
    Part 5: trees of structured tags ([tast], [tast_ok], [rename_tast], [same_tree]).
    Part 6: a concrete admissible renaming and a concrete document.

    The renaming [rho] acts on slash-free names; it is required to behave well on a set [D] of
    names (the "relevant set": at least the slash-free parts of the names of the document and the
    two configured names).  The instance [name_dom] is the set of ALL slash-free well-formed
    names; every [tast_ok] tree has its names in [name_dom]. *)
From Coq Require Import List NArith ZArith Arith Bool Lia PeanoNat.
Import ListNotations.
From Chiri Require Import Base.Bytes Base.Res Model.Tokenizer Model.TagParser Model.TreeParser
  Model.Markers Spec.TagGrammar Spec.Rename
  Proofs.BytesLemmas Proofs.Utf8Lemmas Proofs.TagProofs Proofs.C06Proofs
  Proofs.WellNested Proofs.AstCollect.

(* ------------------------------------------------------------------------- *)
(** * Part 1: renaming of names *)

Definition is_slash (b : byte) : bool := beq b SLASH.

(** The leading '/' bytes of a name. *)
Fixpoint slashes (s : str) : str :=
  match s with
  | [] => []
  | b :: s' => if beq b SLASH then b :: slashes s' else []
  end.

(** A closer [/tl] becomes [/] ++ rho [tl]; a name [//x] keeps both slashes. *)
Definition rn (rho : str -> str) (n : str) : str := slashes n ++ rho (trim_slashes n).

Lemma slashes_trim n : slashes n ++ trim_slashes n = n.
Proof.
  induction n as [|b n IH]; [reflexivity|]. cbn [slashes trim_slashes].
  destruct (beq b SLASH); cbn [app]; [rewrite IH|]; reflexivity.
Qed.

Lemma slashes_all n : forallb is_slash (slashes n) = true.
Proof.
  induction n as [|b n IH]; [reflexivity|]. cbn [slashes].
  destruct (beq b SLASH) eqn:E; [|reflexivity]. cbn [forallb]. unfold is_slash at 1. rewrite E. exact IH.
Qed.

Lemma trim_no_slash n : starts_with_slash (trim_slashes n) = false.
Proof.
  induction n as [|b n IH]; [reflexivity|]. cbn [trim_slashes].
  destruct (beq b SLASH) eqn:E; [exact IH|]. cbn [starts_with_slash]. exact E.
Qed.

Lemma slashes_noslash x : starts_with_slash x = false -> slashes x = [].
Proof. destruct x as [|b x]; [reflexivity|]. cbn [starts_with_slash slashes]. intros ->. reflexivity. Qed.

Lemma trim_noslash x : starts_with_slash x = false -> trim_slashes x = x.
Proof. destruct x as [|b x]; [reflexivity|]. cbn [starts_with_slash trim_slashes]. intros ->. reflexivity. Qed.

Lemma slashes_app s x : forallb is_slash s = true -> starts_with_slash x = false ->
  slashes (s ++ x) = s /\ trim_slashes (s ++ x) = x.
Proof.
  intros Hs Hx. induction s as [|b s IH].
  - cbn [app]. split; [apply slashes_noslash | apply trim_noslash]; exact Hx.
  - cbn [forallb] in Hs. apply andb_true_iff in Hs. destruct Hs as [Hb Hs]. unfold is_slash in Hb.
    destruct (IH Hs) as [I1 I2]. cbn [app slashes trim_slashes]. rewrite Hb, I1, I2. auto.
Qed.

(** [rho] is admissible on the set [D] of names. *)
Record admissible (D : str -> Prop) (rho : str -> str) : Prop := mkAdm {
  adm_wf : forall n, D n -> wf_name (rho n) = true;
  adm_utf8 : forall n, D n -> wf_utf8 (rho n) = true;
  adm_noslash : forall n, D n -> starts_with_slash (rho n) = false;
  adm_inj : forall n m, D n -> D m -> rho n = rho m -> n = m
}.

Lemma adm_nonempty (D : str -> Prop) (rho : str -> str) : admissible D rho -> forall n, D n -> rho n <> [].
Proof. intros A n Hn E. pose proof (adm_wf D rho A n Hn) as W. rewrite E in W. discriminate W. Qed.

Lemma admissible_ext (D : str -> Prop) (rho rho' : str -> str) :
  (forall n, D n -> rho' n = rho n) -> admissible D rho -> admissible D rho'.
Proof.
  intros E A. constructor.
  - intros n Hn. rewrite (E n Hn). apply (adm_wf D rho A n Hn).
  - intros n Hn. rewrite (E n Hn). apply (adm_utf8 D rho A n Hn).
  - intros n Hn. rewrite (E n Hn). apply (adm_noslash D rho A n Hn).
  - intros n m Hn Hm. rewrite (E n Hn), (E m Hm). apply (adm_inj D rho A n m Hn Hm).
Qed.

Lemma admissible_sub (D D' : str -> Prop) rho :
  (forall n, D' n -> D n) -> admissible D rho -> admissible D' rho.
Proof.
  intros S A. constructor.
  - intros n Hn. apply (adm_wf D rho A n (S n Hn)).
  - intros n Hn. apply (adm_utf8 D rho A n (S n Hn)).
  - intros n Hn. apply (adm_noslash D rho A n (S n Hn)).
  - intros n m Hn Hm. apply (adm_inj D rho A n m (S n Hn) (S m Hm)).
Qed.

(** The set of all slash-free well-formed names. *)
Definition name_dom (n : str) : Prop :=
  starts_with_slash n = false /\ wf_name n = true /\ wf_utf8 n = true.

Lemma rn_parts (D : str -> Prop) (rho : str -> str) n : admissible D rho -> D (trim_slashes n) ->
  slashes (rn rho n) = slashes n /\ trim_slashes (rn rho n) = rho (trim_slashes n).
Proof.
  intros A Hn. unfold rn. apply slashes_app; [apply slashes_all | apply (adm_noslash D rho A _ Hn)].
Qed.

Lemma rn_trim (D : str -> Prop) (rho : str -> str) n : admissible D rho -> D (trim_slashes n) ->
  trim_slashes (rn rho n) = rho (trim_slashes n).
Proof. intros A Hn. apply (rn_parts D rho n A Hn). Qed.

Lemma rn_slashes (D : str -> Prop) (rho : str -> str) n : admissible D rho -> D (trim_slashes n) ->
  slashes (rn rho n) = slashes n.
Proof. intros A Hn. apply (rn_parts D rho n A Hn). Qed.

Lemma rn_noslash rho n : starts_with_slash n = false -> rn rho n = rho n.
Proof. intros H. unfold rn. rewrite (slashes_noslash n H), (trim_noslash n H). reflexivity. Qed.

Lemma rn_starts (D : str -> Prop) (rho : str -> str) n : admissible D rho -> D (trim_slashes n) ->
  starts_with_slash (rn rho n) = starts_with_slash n.
Proof.
  intros A Hn. destruct (starts_with_slash n) eqn:E.
  - destruct n as [|b n]; [discriminate E|]. cbn [starts_with_slash] in E.
    unfold rn. cbn [slashes]. rewrite E. cbn [app starts_with_slash]. exact E.
  - rewrite (rn_noslash rho n E). rewrite (trim_noslash n E) in Hn.
    apply (adm_noslash D rho A n Hn).
Qed.

Lemma rn_inj (D : str -> Prop) (rho : str -> str) n m : admissible D rho -> D (trim_slashes n) -> D (trim_slashes m) ->
  rn rho n = rn rho m -> n = m.
Proof.
  intros A Hn Hm H.
  pose proof (f_equal slashes H) as Hs. pose proof (f_equal trim_slashes H) as Ht.
  rewrite (rn_slashes D rho n A Hn), (rn_slashes D rho m A Hm) in Hs.
  rewrite (rn_trim D rho n A Hn), (rn_trim D rho m A Hm) in Ht.
  apply (adm_inj D rho A _ _ Hn Hm) in Ht.
  rewrite <- (slashes_trim n), <- (slashes_trim m), Hs, Ht. reflexivity.
Qed.

Lemma rn_inj_iff (D : str -> Prop) (rho : str -> str) n m : admissible D rho -> D (trim_slashes n) -> D (trim_slashes m) ->
  rn rho n = rn rho m <-> n = m.
Proof. intros A Hn Hm. split; [apply (rn_inj D rho n m A Hn Hm) | intros ->; reflexivity]. Qed.

(** [wf_name] allows '/' anywhere. *)
Definition name_byte_ok (c : byte) : bool := negb (is_sep_byte c) && negb (beq c EQC).

Lemma wf_name_bytes n : wf_name n = true -> forallb name_byte_ok n = true.
Proof.
  destruct n as [|b n]; [reflexivity|]. unfold wf_name. intros H.
  apply andb_true_iff in H. destruct H as [_ H]. exact H.
Qed.

Lemma wf_name_app p n : wf_name p = true -> wf_name n = true -> wf_name (p ++ n) = true.
Proof.
  intros Hp Hn. pose proof (wf_name_bytes p Hp) as Bp. pose proof (wf_name_bytes n Hn) as Bn.
  destruct p as [|b p]; [discriminate Hp|]. unfold wf_name in Hp.
  apply andb_true_iff in Hp. destruct Hp as [Hh _].
  change ((b :: p) ++ n) with (b :: (p ++ n)). unfold wf_name. rewrite Hh. cbn [andb].
  change (forallb name_byte_ok ((b :: p) ++ n) = true). rewrite forallb_app, Bp, Bn. reflexivity.
Qed.

Lemma wf_name_slashes_app s x : forallb is_slash s = true -> wf_name x = true -> wf_name (s ++ x) = true.
Proof.
  intros Hs Hx. induction s as [|b s IH]; [exact Hx|].
  cbn [forallb] in Hs. apply andb_true_iff in Hs. destruct Hs as [Hb Hs]. specialize (IH Hs).
  unfold is_slash in Hb. apply beq_eq in Hb. subst b.
  change ((SLASH :: s) ++ x) with ([SLASH] ++ (s ++ x)). apply wf_name_app; [reflexivity | exact IH].
Qed.

Lemma rn_wf_name (D : str -> Prop) (rho : str -> str) n : admissible D rho -> D (trim_slashes n) -> wf_name (rn rho n) = true.
Proof.
  intros A Hn. unfold rn. apply wf_name_slashes_app; [apply slashes_all | apply (adm_wf D rho A _ Hn)].
Qed.

Lemma WF_all_slash s : forallb is_slash s = true -> WF s.
Proof.
  induction s as [|b s IH]; intros H; [constructor|].
  cbn [forallb] in H. apply andb_true_iff in H. destruct H as [Hb Hs].
  unfold is_slash in Hb. apply beq_eq in Hb. subst b. apply WF_ascii_l; [reflexivity | exact (IH Hs)].
Qed.

Lemma rn_wf_utf8 (D : str -> Prop) (rho : str -> str) n : admissible D rho -> D (trim_slashes n) -> wf_utf8 (rn rho n) = true.
Proof.
  intros A Hn. apply wf_utf8_WF. unfold rn. apply WF_app.
  - apply WF_all_slash, slashes_all.
  - apply wf_utf8_WF. apply (adm_utf8 D rho A _ Hn).
Qed.

(* ------------------------------------------------------------------------- *)
(** * Part 2: renaming of tags *)

Definition rename_tag (rho : str -> str) (t : tag_ast) : tag_ast :=
  mkTag (tg_pad_left t) (rn rho (tg_name t)) (tg_attrs t) (tg_pad_right t).

Lemma attrs_of_rename rho t : attrs_of (rename_tag rho t) = attrs_of t.
Proof. reflexivity. Qed.

Lemma wf_tag_rename (D : str -> Prop) (rho : str -> str) t : admissible D rho -> D (trim_slashes (tg_name t)) ->
  wf_tag t = true -> wf_tag (rename_tag rho t) = true.
Proof.
  intros A Hn H. unfold wf_tag in *. cbn [rename_tag tg_name tg_attrs tg_pad_right].
  apply andb_true_iff in H. destruct H as [H H3]. apply andb_true_iff in H. destruct H as [_ H2].
  rewrite (rn_wf_name D rho _ A Hn), H2, H3. reflexivity.
Qed.

(** What follows the name in a printed tag. *)
Definition tag_tail (t : tag_ast) : str := flat_map print_attr (tg_attrs t) ++ tg_pad_right t.

Lemma print_body_parts t : print_body t = repeat SP (tg_pad_left t) ++ tg_name t ++ tag_tail t.
Proof. reflexivity. Qed.

Lemma print_body_rename rho t :
  print_body (rename_tag rho t) = repeat SP (tg_pad_left t) ++ rn rho (tg_name t) ++ tag_tail t.
Proof. reflexivity. Qed.

Lemma sep_not_cont c : is_sep_byte c = true -> is_cont c = false.
Proof.
  unfold is_sep_byte. intros H. apply orb_true_iff in H.
  destruct H as [H|H]; apply beq_eq in H; subst c; reflexivity.
Qed.

Lemma bstart_seps s r : forallb is_sep_byte s = true -> s <> [] -> bstart (s ++ r) = true.
Proof.
  destruct s as [|c s]; [congruence|]. intros H _. cbn [forallb] in H.
  apply andb_true_iff in H. destruct H as [Hc _]. cbn [app bstart]. rewrite (sep_not_cont c Hc). reflexivity.
Qed.

Lemma bstart_tag_tail t : wf_tag t = true -> bstart (tag_tail t) = true.
Proof.
  unfold wf_tag, tag_tail. intros H.
  apply andb_true_iff in H. destruct H as [H H3]. apply andb_true_iff in H. destruct H as [_ H2].
  destruct (tg_attrs t) as [|a l].
  - cbn [flat_map app]. destruct (tg_pad_right t) as [|c r] eqn:E; [reflexivity|].
    rewrite <- (app_nil_r (c :: r)). apply bstart_seps; [exact H3 | discriminate].
  - cbn [forallb] in H2. apply andb_true_iff in H2. destruct H2 as [Ha _].
    unfold wf_attr in Ha. apply andb_true_iff in Ha. destruct Ha as [Ha _].
    apply andb_true_iff in Ha. destruct Ha as [Ha _].
    cbn [flat_map]. unfold print_attr at 1. rewrite <- !app_assoc.
    destruct (at_sep a) as [|c s] eqn:E; [discriminate Ha|].
    apply bstart_seps; [exact Ha | discriminate].
Qed.

Lemma WF_repeat_SP k : WF (repeat SP k).
Proof. induction k as [|k IH]; [constructor|]. cbn [repeat]. apply WF_ascii_l; [reflexivity | exact IH]. Qed.

(** The three parts of a well-formed printed tag are well-formed UTF-8. *)
Lemma wf_utf8_tag_parts t : wf_tag t = true -> wf_utf8 (print_body t) = true ->
  WF (tg_name t) /\ WF (tag_tail t).
Proof.
  intros Hwf H. apply wf_utf8_WF in H. rewrite print_body_parts in H.
  apply (WF_strip_prefix _ (WF_repeat_SP _)) in H.
  apply (WF_split _ H (tg_name t) (tag_tail t) eq_refl (bstart_tag_tail t Hwf)).
Qed.

Lemma wf_utf8_rename (D : str -> Prop) (rho : str -> str) t : admissible D rho -> D (trim_slashes (tg_name t)) ->
  wf_tag t = true -> wf_utf8 (print_body t) = true ->
  wf_utf8 (print_body (rename_tag rho t)) = true.
Proof.
  intros A Hn Hwf H. destruct (wf_utf8_tag_parts t Hwf H) as [_ Wt].
  apply wf_utf8_WF. rewrite print_body_rename.
  apply WF_app; [apply WF_repeat_SP|]. apply WF_app; [|exact Wt].
  apply wf_utf8_WF. apply (rn_wf_utf8 D rho _ A Hn).
Qed.

Theorem parse_rename_tag (D : str -> Prop) (rho : str -> str) t : admissible D rho -> D (trim_slashes (tg_name t)) ->
  wf_tag t = true -> wf_utf8 (print_body t) = true ->
  parse_target (print_body (rename_tag rho t)) =
  Ok (Some (mkElement (rn rho (tg_name t)) (attrs_of t))).
Proof.
  intros A Hn Hwf H.
  apply (parse_printed_tag (rename_tag rho t) (wf_tag_rename D rho t A Hn Hwf)
                           (wf_utf8_rename D rho t A Hn Hwf H)).
Qed.

Lemma el_of_parse b el : parse_target b = Ok (Some el) -> el_of b = el.
Proof. intros H. unfold el_of, icls. rewrite H. reflexivity. Qed.

Lemma el_of_printed t : wf_tag t = true -> wf_utf8 (print_body t) = true ->
  el_of (print_body t) = mkElement (tg_name t) (attrs_of t).
Proof. intros Hwf H. apply el_of_parse. apply parse_printed_tag; assumption. Qed.

Lemma el_of_renamed (D : str -> Prop) (rho : str -> str) t : admissible D rho -> D (trim_slashes (tg_name t)) ->
  wf_tag t = true -> wf_utf8 (print_body t) = true ->
  el_of (print_body (rename_tag rho t)) = mkElement (rn rho (tg_name t)) (attrs_of t).
Proof. intros A Hn Hwf H. apply el_of_parse. apply (parse_rename_tag D rho t A Hn Hwf H). Qed.

(* ------------------------------------------------------------------------- *)
(** * Part 3: decisions *)

Definition rename_cfg (rho : str -> str) (cfg : config) : config :=
  mkConfig (rho (tl_tag cfg)) (tl_offset cfg) (now cfg) (rho (rm_tag cfg)) (targets cfg).

(** The two configured names are slash-free and belong to the set on which [rho] behaves. *)
Definition cfg_ok (D : str -> Prop) (cfg : config) : Prop :=
  D (tl_tag cfg) /\ D (rm_tag cfg) /\
  starts_with_slash (tl_tag cfg) = false /\ starts_with_slash (rm_tag cfg) = false.

Lemma str_eqb_rn (D : str -> Prop) (rho : str -> str) n m : admissible D rho -> D (trim_slashes n) -> D m ->
  starts_with_slash m = false -> str_eqb (rn rho n) (rho m) = str_eqb n m.
Proof.
  intros A Hn Hm Sm. rewrite <- (rn_noslash rho m Sm).
  destruct (str_eqb n m) eqn:E.
  - apply str_eqb_eq in E. subst m. apply str_eqb_refl.
  - apply str_eqb_neq in E. apply str_eqb_neq. intros H. apply E.
    apply (rn_inj D rho n m A Hn); [|exact H]. rewrite (trim_noslash m Sm). exact Hm.
Qed.

(** The whole decision (not ready nor pending / ready / pending) is unchanged; this covers the
    case [tl_tag cfg = rm_tag cfg] (then the renamed names are equal too and the removal-marker
    entry wins on both sides). *)
Theorem status_rename (D : str -> Prop) (rho : str -> str) cfg n attrs : admissible D rho -> cfg_ok D cfg ->
  D (trim_slashes n) ->
  status (rename_cfg rho cfg) (mkElement (rn rho n) attrs) = status cfg (mkElement n attrs).
Proof.
  intros A (Dtl & Drm & Stl & Srm) Hn. unfold status, evaluator, is_skip.
  cbn [el_name el_attrs rename_cfg tl_tag rm_tag tl_offset now targets].
  rewrite (str_eqb_rn D rho n (rm_tag cfg) A Hn Drm Srm), (str_eqb_rn D rho n (tl_tag cfg) A Hn Dtl Stl).
  destruct (has_attr S_SKIP attrs); [reflexivity|].
  destruct (str_eqb n (rm_tag cfg)); [reflexivity|].
  destruct (str_eqb n (tl_tag cfg)); reflexivity.
Qed.

(** The same through [status_ready_iff]: readiness, spelled out. *)
Corollary ready_rename (D : str -> Prop) (rho : str -> str) cfg n attrs : admissible D rho -> cfg_ok D cfg ->
  D (trim_slashes n) ->
  (status (rename_cfg rho cfg) (mkElement (rn rho n) attrs) = Some true <->
   is_skip (mkElement n attrs) = false /\
   ((n = rm_tag cfg /\ marker_is_removal (targets cfg) (mkElement n attrs) = true) \/
    (n <> rm_tag cfg /\ n = tl_tag cfg /\
     time_is_removal (tl_offset cfg) (now cfg) (mkElement n attrs) = true))).
Proof.
  intros A C Hn. rewrite (status_rename D rho cfg n attrs A C Hn).
  apply (status_ready_iff cfg (mkElement n attrs)).
Qed.

Lemma has_attr_rename rho n attrs name :
  has_attr name (el_attrs (mkElement (rn rho n) attrs)) = has_attr name (el_attrs (mkElement n attrs)).
Proof. reflexivity. Qed.

(** Tag level. *)
Theorem status_rename_tag (D : str -> Prop) (rho : str -> str) cfg t : admissible D rho -> cfg_ok D cfg ->
  D (trim_slashes (tg_name t)) -> wf_tag t = true -> wf_utf8 (print_body t) = true ->
  status (rename_cfg rho cfg) (el_of (print_body (rename_tag rho t))) =
  status cfg (el_of (print_body t)).
Proof.
  intros A C Hn Hwf H. rewrite (el_of_renamed D rho t A Hn Hwf H), (el_of_printed t Hwf H).
  apply (status_rename D rho cfg _ _ A C Hn).
Qed.

Theorem el_readyb_rename_tag (D : str -> Prop) (rho : str -> str) cfg t : admissible D rho -> cfg_ok D cfg ->
  D (trim_slashes (tg_name t)) -> wf_tag t = true -> wf_utf8 (print_body t) = true ->
  el_readyb (rename_cfg rho cfg) (print_body (rename_tag rho t)) = el_readyb cfg (print_body t).
Proof.
  intros A C Hn Hwf H. unfold el_readyb. rewrite (status_rename_tag D rho cfg t A C Hn Hwf H). reflexivity.
Qed.

Theorem attrs_rename_tag (D : str -> Prop) (rho : str -> str) t : admissible D rho ->
  D (trim_slashes (tg_name t)) -> wf_tag t = true -> wf_utf8 (print_body t) = true ->
  el_attrs (el_of (print_body (rename_tag rho t))) = el_attrs (el_of (print_body t)).
Proof.
  intros A Hn Hwf H. rewrite (el_of_renamed D rho t A Hn Hwf H), (el_of_printed t Hwf H). reflexivity.
Qed.

Corollary unwrap_rename_tag (D : str -> Prop) (rho : str -> str) t : admissible D rho ->
  D (trim_slashes (tg_name t)) -> wf_tag t = true -> wf_utf8 (print_body t) = true ->
  has_attr S_UNWRAP (el_attrs (el_of (print_body (rename_tag rho t)))) =
  has_attr S_UNWRAP (el_attrs (el_of (print_body t))).
Proof. intros A Hn Hwf H. rewrite (attrs_rename_tag D rho t A Hn Hwf H). reflexivity. Qed.

(* ------------------------------------------------------------------------- *)
(** * Part 4: pairing *)

(** [n2] is the name of a closing tag for the opening tag named [n1] (as in [ast_ok]). *)
Definition closes (n1 n2 : str) : Prop :=
  starts_with_slash n1 = false /\ starts_with_slash n2 = true /\ trim_slashes n2 = n1.

Theorem closes_rename (D : str -> Prop) (rho : str -> str) n1 n2 : admissible D rho -> D n1 ->
  closes n1 n2 -> closes (rn rho n1) (rn rho n2).
Proof.
  intros A Hn (S1 & S2 & T).
  assert (D (trim_slashes n1)) as H1 by (rewrite (trim_noslash n1 S1); exact Hn).
  assert (D (trim_slashes n2)) as H2 by (rewrite T; exact Hn).
  unfold closes. rewrite (rn_starts D rho n1 A H1), (rn_starts D rho n2 A H2), (rn_trim D rho n2 A H2).
  rewrite T, (rn_noslash rho n1 S1). auto.
Qed.

(* ------------------------------------------------------------------------- *)
(** * Part 5: trees of structured tags *)

Inductive tast :=
| TT (t : str)                                   (* a text *)
| TC (b : str)                                   (* a comment tag: raw body *)
| TE (t1 t2 : tag_ast) (kids : list tast).       (* an element: opening tag, closing tag, children *)

Fixpoint tast_ind' (P : tast -> Prop)
         (HT : forall t, P (TT t))
         (HC : forall b, P (TC b))
         (HE : forall t1 t2 kids, Forall P kids -> P (TE t1 t2 kids))
         (a : tast) : P a :=
  match a with
  | TT t => HT t
  | TC b => HC b
  | TE t1 t2 kids =>
    HE t1 t2 kids
       ((fix go (l : list tast) : Forall P l :=
           match l with
           | [] => Forall_nil P
           | x :: l' => Forall_cons x (tast_ind' P HT HC HE x) (go l')
           end) kids)
  end.

Fixpoint to_ast1 (a : tast) : ast :=
  match a with
  | TT t => AT t
  | TC b => AC b
  | TE t1 t2 kids => AE (print_body t1) (print_body t2) (map to_ast1 kids)
  end.
Definition to_ast (f : list tast) : list ast := map to_ast1 f.

Fixpoint rename_tast1 (rho : str -> str) (a : tast) : tast :=
  match a with
  | TT t => TT t
  | TC b => TC b
  | TE t1 t2 kids => TE (rename_tag rho t1) (rename_tag rho t2) (map (rename_tast1 rho) kids)
  end.
Definition rename_tast (rho : str -> str) (f : list tast) : list tast := map (rename_tast1 rho) f.

Inductive tast_ok1 : tast -> Prop :=
| tok_TT t : tast_ok1 (TT t)
| tok_TC b : parse_target b = Ok None -> tast_ok1 (TC b)
| tok_TE t1 t2 kids :
    wf_tag t1 = true -> wf_tag t2 = true ->
    wf_utf8 (print_body t1) = true -> wf_utf8 (print_body t2) = true ->
    starts_with_slash (tg_name t1) = false ->
    starts_with_slash (tg_name t2) = true -> trim_slashes (tg_name t2) = tg_name t1 ->
    Forall tast_ok1 kids ->
    tast_ok1 (TE t1 t2 kids).
Definition tast_ok (f : list tast) : Prop := Forall tast_ok1 f.

(** The opening tags in pre-order (the order of [ast_nodes]). *)
Fixpoint openers1 (a : tast) : list tag_ast :=
  match a with
  | TE t1 _ kids => t1 :: flat_map openers1 kids
  | _ => []
  end.
Definition openers_of (f : list tast) : list tag_ast := flat_map openers1 f.

(** All element names of the forest lie in [D]. *)
Definition names_in (D : str -> Prop) (f : list tast) : Prop :=
  Forall (fun t => D (tg_name t)) (openers_of f).

Lemma Forall_map_mp {A B} (g : A -> B) (P1 : A -> Prop) (Q : B -> Prop) l :
  Forall (fun a => P1 a -> Q (g a)) l -> Forall P1 l -> Forall Q (map g l).
Proof.
  induction 1 as [|a l Ha _ IH]; intros H1; [constructor|].
  inversion H1; subst. cbn [map]. constructor; auto.
Qed.

Lemma Forall_map_mp2 {A B} (g : A -> B) (P1 P2 : A -> Prop) (Q : B -> Prop) l :
  Forall (fun a => P1 a -> P2 a -> Q (g a)) l -> Forall P1 l -> Forall P2 l -> Forall Q (map g l).
Proof.
  induction 1 as [|a l Ha _ IH]; intros H1 H2; [constructor|].
  inversion H1; subst. inversion H2; subst. cbn [map]. constructor; auto.
Qed.

(** ** Well-formed structured trees are well-nested syntax trees *)
Lemma tast_ok1_ast_ok a : tast_ok1 a -> ast_ok (to_ast1 a).
Proof.
  induction a as [t | b | t1 t2 kids IH] using tast_ind'; intros Hok; inversion Hok; subst; cbn [to_ast1].
  - constructor.
  - constructor. assumption.
  - apply (ok_AE _ _ _ (mkElement (tg_name t1) (attrs_of t1)) (mkElement (tg_name t2) (attrs_of t2)));
      cbn [el_name]; try assumption.
    + apply parse_printed_tag; assumption.
    + apply parse_printed_tag; assumption.
    + apply (Forall_map_mp to_ast1 tast_ok1 ast_ok kids IH). assumption.
Qed.

Theorem tast_ok_ast_ok f : tast_ok f -> Forall ast_ok (to_ast f).
Proof.
  intros H. unfold to_ast. apply Forall_map. revert H. apply Forall_impl. apply tast_ok1_ast_ok.
Qed.

(** ** Facts about the opening tags of a well-formed tree *)
Definition opener_ok (t : tag_ast) : Prop :=
  wf_tag t = true /\ wf_utf8 (print_body t) = true /\ starts_with_slash (tg_name t) = false.

Lemma openers1_ok a : tast_ok1 a -> Forall opener_ok (openers1 a).
Proof.
  induction a as [t | b | t1 t2 kids IH] using tast_ind'; intros Hok; inversion Hok; subst;
    cbn [openers1]; try constructor.
  - repeat split; assumption.
  - apply Forall_flat_map. apply Forall_forall. intros k Hk.
    rewrite Forall_forall in IH. apply (IH k Hk).
    match goal with H : Forall tast_ok1 kids |- _ => rewrite Forall_forall in H; apply (H k Hk) end.
Qed.

Lemma openers_ok f : tast_ok f -> Forall opener_ok (openers_of f).
Proof.
  intros H. unfold openers_of. apply Forall_flat_map. revert H. apply Forall_impl. apply openers1_ok.
Qed.

Lemma opener_in_name_dom t : opener_ok t -> name_dom (tg_name t).
Proof.
  intros (Hwf & Hu & Hs). split; [exact Hs|]. split.
  - unfold wf_tag in Hwf. apply andb_true_iff in Hwf. destruct Hwf as [Hwf _].
    apply andb_true_iff in Hwf. destruct Hwf as [Hwf _]. exact Hwf.
  - apply wf_utf8_WF. apply (wf_utf8_tag_parts t Hwf Hu).
Qed.

(** Every well-formed tree has its names among the slash-free well-formed names. *)
Theorem tast_ok_names f : tast_ok f -> names_in name_dom f.
Proof.
  intros H. unfold names_in. generalize (openers_ok f H). apply Forall_impl. apply opener_in_name_dom.
Qed.

Lemma wf_tag_name_nonempty t : wf_tag t = true -> tg_name t <> [].
Proof.
  unfold wf_tag. intros H E. rewrite E in H. discriminate H.
Qed.

(** ** Renaming preserves well-formedness of trees *)
Lemma rename_ok1 (D : str -> Prop) (rho : str -> str) a : admissible D rho ->
  tast_ok1 a -> Forall (fun t => D (tg_name t)) (openers1 a) -> tast_ok1 (rename_tast1 rho a).
Proof.
  intros A. induction a as [t | b | t1 t2 kids IH] using tast_ind'; intros Hok Hd;
    inversion Hok as [| | ? ? ? W1 W2 U1 U2 S1 S2 T K]; subst; cbn [rename_tast1].
  - constructor.
  - constructor. assumption.
  - cbn [openers1] in Hd. inversion Hd as [|? ? D1 Dk]; subst.
    assert (D (trim_slashes (tg_name t1))) as H1 by (rewrite (trim_noslash _ S1); exact D1).
    assert (D (trim_slashes (tg_name t2))) as H2 by (rewrite T; exact D1).
    constructor.
    + apply (wf_tag_rename D rho t1 A H1 W1).
    + apply (wf_tag_rename D rho t2 A H2 W2).
    + apply (wf_utf8_rename D rho t1 A H1 W1 U1).
    + apply (wf_utf8_rename D rho t2 A H2 W2 U2).
    + cbn [rename_tag tg_name]. rewrite (rn_starts D rho _ A H1). exact S1.
    + cbn [rename_tag tg_name]. rewrite (rn_starts D rho _ A H2). exact S2.
    + cbn [rename_tag tg_name]. rewrite (rn_trim D rho _ A H2), T, (rn_noslash rho _ S1). reflexivity.
    + apply Forall_flat_map in Dk.
      apply (Forall_map_mp2 (rename_tast1 rho) tast_ok1
               (fun k => Forall (fun t => D (tg_name t)) (openers1 k)) tast_ok1 kids IH K Dk).
Qed.

Theorem tast_ok_rename (D : str -> Prop) (rho : str -> str) f : admissible D rho -> names_in D f ->
  tast_ok f -> tast_ok (rename_tast rho f).
Proof.
  intros A Hd Hok. unfold names_in, openers_of in Hd. apply Forall_flat_map in Hd.
  unfold tast_ok, rename_tast.
  apply (Forall_map_mp2 (rename_tast1 rho) tast_ok1
           (fun k => Forall (fun t => D (tg_name t)) (openers1 k)) tast_ok1 f); [|exact Hok | exact Hd].
  apply Forall_forall. intros a _. apply (rename_ok1 D rho a A).
Qed.

(** ** The two syntax trees have the same shape with corresponding bodies *)

(** The correspondence of bodies: [Pc] for comment tags, [Pe] for the two tags of an element. *)
Inductive same1 (Pc Pe : str -> str -> Prop) : ast -> ast -> Prop :=
| s1_AT t : same1 Pc Pe (AT t) (AT t)
| s1_AC b b' : Pc b b' -> same1 Pc Pe (AC b) (AC b')
| s1_AE b1 b2 kids b1' b2' kids' :
    Pe b1 b1' -> Pe b2 b2' -> same_tree Pc Pe kids kids' ->
    same1 Pc Pe (AE b1 b2 kids) (AE b1' b2' kids')
with same_tree (Pc Pe : str -> str -> Prop) : list ast -> list ast -> Prop :=
| st_nil : same_tree Pc Pe [] []
| st_cons a a' f f' : same1 Pc Pe a a' -> same_tree Pc Pe f f' -> same_tree Pc Pe (a :: f) (a' :: f').

(** Comment tags keep their body. *)
Definition P_comment (b b' : str) : Prop := b' = b.

(** Element tags: the bodies are the printed forms of a structured tag and of its renaming. *)
Definition P_elem (rho : str -> str) (b b' : str) : Prop :=
  exists t, wf_tag t = true /\ wf_utf8 (print_body t) = true /\ trim_slashes (tg_name t) <> [] /\
            b = print_body t /\ b' = print_body (rename_tag rho t).

(** The single relation of the informal statement: either case. *)
Definition P_any (rho : str -> str) (b b' : str) : Prop := P_comment b b' \/ P_elem rho b b'.

Lemma same1_mono (Pc Pe Pc' Pe' : str -> str -> Prop) :
  (forall b b', Pc b b' -> Pc' b b') -> (forall b b', Pe b b' -> Pe' b b') ->
  forall a a', same1 Pc Pe a a' -> same1 Pc' Pe' a a'.
Proof.
  intros Hc He a. induction a as [t | b | b1 b2 kids IH] using ast_ind'; intros a' H;
    inversion H as [| | ? ? ? ? ? kids' E1 E2 K]; subst.
  - constructor.
  - constructor. auto.
  - constructor; auto. clear H. revert kids' K.
    induction IH as [|k kids Hk _ IHk]; intros kids' K; inversion K; subst; constructor; auto.
Qed.

Lemma same_tree_mono (Pc Pe Pc' Pe' : str -> str -> Prop) :
  (forall b b', Pc b b' -> Pc' b b') -> (forall b b', Pe b b' -> Pe' b b') ->
  forall f f', same_tree Pc Pe f f' -> same_tree Pc' Pe' f f'.
Proof.
  intros Hc He f. induction f as [|a f IH]; intros f' H; inversion H; subst; constructor.
  - eapply same1_mono; eauto.
  - apply IH. assumption.
Qed.

Lemma same_tree_maps (Pc Pe : str -> str -> Prop) rho l :
  Forall (fun a => tast_ok1 a -> same1 Pc Pe (to_ast1 a) (to_ast1 (rename_tast1 rho a))) l ->
  Forall tast_ok1 l ->
  same_tree Pc Pe (map to_ast1 l) (map to_ast1 (map (rename_tast1 rho) l)).
Proof.
  induction 1 as [|a l Ha _ IH]; intros Hok; [constructor|].
  inversion Hok; subst. cbn [map]. constructor; auto.
Qed.

Lemma same1_rename rho a : tast_ok1 a ->
  same1 P_comment (P_elem rho) (to_ast1 a) (to_ast1 (rename_tast1 rho a)).
Proof.
  induction a as [t | b | t1 t2 kids IH] using tast_ind'; intros Hok;
    inversion Hok as [| | ? ? ? W1 W2 U1 U2 S1 S2 T K]; subst; cbn [rename_tast1 to_ast1].
  - constructor.
  - constructor. reflexivity.
  - constructor.
    + exists t1. repeat split; try assumption.
      rewrite (trim_noslash _ S1). apply (wf_tag_name_nonempty t1 W1).
    + exists t2. repeat split; try assumption.
      rewrite T. apply (wf_tag_name_nonempty t1 W1).
    + apply same_tree_maps; assumption.
Qed.

Theorem same_tree_rename rho f : tast_ok f ->
  same_tree P_comment (P_elem rho) (to_ast f) (to_ast (rename_tast rho f)).
Proof.
  intros Hok. unfold to_ast, rename_tast. apply same_tree_maps; [|exact Hok].
  apply Forall_forall. intros a _. apply same1_rename.
Qed.

Corollary same_tree_rename_any rho f : tast_ok f ->
  same_tree (P_any rho) (P_any rho) (to_ast f) (to_ast (rename_tast rho f)).
Proof.
  intros Hok. apply (same_tree_mono P_comment (P_elem rho)); [| |apply same_tree_rename; exact Hok];
    intros b b' H; [left | right]; exact H.
Qed.

(** ** The nodes of the syntax tree are the opening tags *)
Lemma nodes_b1_forest l :
  Forall (fun a => forall base, map node_b1 (nodes1 base (to_ast1 a)) = map print_body (openers1 a)) l ->
  forall base, map node_b1 (ast_nodes base (map to_ast1 l)) = map print_body (flat_map openers1 l).
Proof.
  induction 1 as [|a l Ha _ IH]; intros base; [reflexivity|].
  cbn [map ast_nodes flat_map]. rewrite !map_app, Ha, IH. reflexivity.
Qed.

Lemma nodes1_b1 a : forall base,
  map node_b1 (nodes1 base (to_ast1 a)) = map print_body (openers1 a).
Proof.
  induction a as [t | b | t1 t2 kids IH] using tast_ind'; intros base; try reflexivity.
  cbn [to_ast1 openers1]. rewrite nodes1_AE. cbn [map node_b1]. f_equal.
  apply (nodes_b1_forest kids IH).
Qed.

Theorem nodes_b1_openers f base :
  map node_b1 (ast_nodes base (to_ast f)) = map print_body (openers_of f).
Proof.
  unfold to_ast, openers_of. apply nodes_b1_forest. apply Forall_forall. intros a _. apply nodes1_b1.
Qed.

Lemma openers1_rename rho a : openers1 (rename_tast1 rho a) = map (rename_tag rho) (openers1 a).
Proof.
  induction a as [t | b | t1 t2 kids IH] using tast_ind'; try reflexivity.
  cbn [rename_tast1 openers1 map]. f_equal.
  induction IH as [|k kids Hk _ IHk]; [reflexivity|].
  cbn [map flat_map]. rewrite map_app, Hk, IHk. reflexivity.
Qed.

Theorem openers_rename rho f : openers_of (rename_tast rho f) = map (rename_tag rho) (openers_of f).
Proof.
  unfold openers_of, rename_tast. induction f as [|a f IH]; [reflexivity|].
  cbn [map flat_map]. rewrite map_app, openers1_rename, IH. reflexivity.
Qed.

(** ** Decisions on corresponding opening tags *)
Lemma opener_facts (D : str -> Prop) f t : tast_ok f -> names_in D f -> In t (openers_of f) ->
  wf_tag t = true /\ wf_utf8 (print_body t) = true /\ D (trim_slashes (tg_name t)).
Proof.
  intros Hok Hd Hin. pose proof (openers_ok f Hok) as Ho. rewrite Forall_forall in Ho.
  destruct (Ho t Hin) as (W & U & S). unfold names_in in Hd. rewrite Forall_forall in Hd.
  split; [exact W|]. split; [exact U|]. rewrite (trim_noslash _ S). apply (Hd t Hin).
Qed.

Theorem el_readyb_rename_openers (D : str -> Prop) (rho : str -> str) cfg f : admissible D rho -> cfg_ok D cfg ->
  tast_ok f -> names_in D f ->
  forall t1, In t1 (openers_of f) ->
    el_readyb (rename_cfg rho cfg) (print_body (rename_tag rho t1)) = el_readyb cfg (print_body t1).
Proof.
  intros A C Hok Hd t1 Hin. destruct (opener_facts D f t1 Hok Hd Hin) as (W & U & Dn).
  apply (el_readyb_rename_tag D rho cfg t1 A C Dn W U).
Qed.

Theorem status_rename_openers (D : str -> Prop) (rho : str -> str) cfg f : admissible D rho -> cfg_ok D cfg ->
  tast_ok f -> names_in D f ->
  forall t1, In t1 (openers_of f) ->
    status (rename_cfg rho cfg) (el_of (print_body (rename_tag rho t1))) =
    status cfg (el_of (print_body t1)).
Proof.
  intros A C Hok Hd t1 Hin. destruct (opener_facts D f t1 Hok Hd Hin) as (W & U & Dn).
  apply (status_rename_tag D rho cfg t1 A C Dn W U).
Qed.

(** Node by node, in the order of [ast_nodes]: the same readiness. *)
Theorem readyb_rename_nodes (D : str -> Prop) (rho : str -> str) cfg f base : admissible D rho -> cfg_ok D cfg ->
  tast_ok f -> names_in D f ->
  map (readyb (rename_cfg rho cfg)) (ast_nodes base (to_ast (rename_tast rho f))) =
  map (readyb cfg) (ast_nodes base (to_ast f)).
Proof.
  intros A C Hok Hd.
  change (readyb (rename_cfg rho cfg)) with (fun n : node => el_readyb (rename_cfg rho cfg) (node_b1 n)).
  change (readyb cfg) with (fun n : node => el_readyb cfg (node_b1 n)).
  rewrite <- !(map_map node_b1 (el_readyb _)), !nodes_b1_openers, openers_rename, !map_map.
  apply map_ext_in. intros t Hin. apply (el_readyb_rename_openers D rho cfg f A C Hok Hd t Hin).
Qed.

Lemma no_unwrap_openers f :
  no_unwrap (to_ast f) <->
  forall t, In t (openers_of f) -> has_attr S_UNWRAP (el_attrs (el_of (print_body t))) = false.
Proof.
  unfold no_unwrap, nu_nodes. split.
  - intros H t Hin. apply (in_map print_body) in Hin. rewrite <- (nodes_b1_openers f 0) in Hin.
    apply in_map_iff in Hin. destruct Hin as (n & <- & Hn). apply (H n Hn).
  - intros H n Hn. apply (in_map node_b1) in Hn. rewrite (nodes_b1_openers f 0) in Hn.
    apply in_map_iff in Hn. destruct Hn as (t & <- & Ht). apply (H t Ht).
Qed.

Theorem no_unwrap_rename (D : str -> Prop) (rho : str -> str) f : admissible D rho -> tast_ok f -> names_in D f ->
  no_unwrap (to_ast f) -> no_unwrap (to_ast (rename_tast rho f)).
Proof.
  intros A Hok Hd H. rewrite no_unwrap_openers in H. apply no_unwrap_openers.
  intros t' Hin. rewrite openers_rename in Hin. apply in_map_iff in Hin. destruct Hin as (t & <- & Ht).
  destruct (opener_facts D f t Hok Hd Ht) as (W & U & Dn).
  rewrite (unwrap_rename_tag D rho t A Dn W U). apply (H t Ht).
Qed.

(** The converse holds as well. *)
Theorem no_unwrap_rename_iff (D : str -> Prop) (rho : str -> str) f : admissible D rho -> tast_ok f -> names_in D f ->
  (no_unwrap (to_ast (rename_tast rho f)) <-> no_unwrap (to_ast f)).
Proof.
  intros A Hok Hd. split; [|apply (no_unwrap_rename D rho f A Hok Hd)].
  intros H. rewrite no_unwrap_openers in H. apply no_unwrap_openers. intros t Ht.
  destruct (opener_facts D f t Hok Hd Ht) as (W & U & Dn).
  rewrite <- (unwrap_rename_tag D rho t A Dn W U). apply H.
  rewrite openers_rename. apply in_map. exact Ht.
Qed.

(* ------------------------------------------------------------------------- *)
(** * Part 6: a concrete admissible renaming and a concrete document *)

Definition S_TL : str := [116;108]%N.                                             (* "tl" *)
Definition S_RM : str := [114;109]%N.                                             (* "rm" *)
Definition S_TIME_LIMITED : str := [116;105;109;101;45;108;105;109;105;116;101;100]%N.   (* "time-limited" *)
Definition S_REMOVAL_MARKER : str :=
  [114;101;109;111;118;97;108;45;109;97;114;107;101;114]%N.                       (* "removal-marker" *)
Definition S_X : str := [120;45]%N.                                               (* "x-" *)

(** tl |-> time-limited, rm |-> removal-marker, every other name gets the prefix "x-". *)
Definition rho_ex (n : str) : str :=
  if str_eqb n S_TL then S_TIME_LIMITED
  else if str_eqb n S_RM then S_REMOVAL_MARKER
  else S_X ++ n.

Theorem rho_ex_admissible : admissible name_dom rho_ex.
Proof.
  constructor.
  - intros n (_ & W & _). unfold rho_ex.
    destruct (str_eqb n S_TL); [reflexivity|]. destruct (str_eqb n S_RM); [reflexivity|].
    apply wf_name_app; [reflexivity | exact W].
  - intros n (_ & _ & U). unfold rho_ex.
    destruct (str_eqb n S_TL); [reflexivity|]. destruct (str_eqb n S_RM); [reflexivity|].
    apply wf_utf8_WF. apply WF_app; [apply wf_utf8_WF; reflexivity | apply wf_utf8_WF; exact U].
  - intros n _. unfold rho_ex.
    destruct (str_eqb n S_TL); [reflexivity|]. destruct (str_eqb n S_RM); reflexivity.
  - intros n m _ _. unfold rho_ex.
    destruct (str_eqb n S_TL) eqn:N1; [apply str_eqb_eq in N1 | destruct (str_eqb n S_RM) eqn:N2; [apply str_eqb_eq in N2|]];
    (destruct (str_eqb m S_TL) eqn:M1; [apply str_eqb_eq in M1 | destruct (str_eqb m S_RM) eqn:M2; [apply str_eqb_eq in M2|]]);
    unfold S_TIME_LIMITED, S_REMOVAL_MARKER, S_X; cbn [app]; intros H;
    try congruence; discriminate H.
Qed.

(** The domain restriction is needed for THIS renaming: on the slash-free non-empty name " "
    (which no tag can carry) it does not produce a well-formed name. *)
Example rho_ex_not_total :
  starts_with_slash [SP] = false /\ [SP] <> [] /\ wf_name (rho_ex [SP]) = false.
Proof. split; [reflexivity|]. split; [discriminate | reflexivity]. Qed.

(** Why the lemmas on [rn] ask for [D (trim_slashes n)]: the empty name is outside [name_dom], so an
    admissible renaming may send it anywhere.  With [] |-> "/x-a" the name [] starts with a slash
    after renaming, and the names [] and "/a" collide. *)
Definition rho_bad (n : str) : str :=
  match n with [] => [47;120;45;97]%N | _ => rho_ex n end.

Example rho_bad_admissible : admissible name_dom rho_bad.
Proof.
  apply (admissible_ext name_dom rho_ex); [|exact rho_ex_admissible].
  intros n (_ & W & _). destruct n; [discriminate W | reflexivity].
Qed.

Example rho_bad_counterexample :
  starts_with_slash (rn rho_bad []) = true /\ starts_with_slash [] = false /\
  rn rho_bad [] = rn rho_bad [47;97]%N /\ [] <> [47;97]%N.
Proof. split; [reflexivity|]. split; [reflexivity|]. split; [reflexivity | discriminate]. Qed.

(** Why [status_rename] asks for [D (trim_slashes n)] and not only [trim_slashes n <> []]: a name
    outside the set (here " ", which no tag can carry) may be sent onto the image of a configured
    name; the decision for it then changes. *)
Definition rho_bad2 (n : str) : str :=
  if str_eqb n [SP] then S_TIME_LIMITED else rho_ex n.

Example rho_bad2_admissible : admissible name_dom rho_bad2.
Proof.
  apply (admissible_ext name_dom rho_ex); [|exact rho_ex_admissible].
  intros n (_ & W & _). unfold rho_bad2. destruct (str_eqb n [SP]) eqn:E; [|reflexivity].
  apply str_eqb_eq in E. subst n. discriminate W.
Qed.

Example rho_bad2_counterexample :
  let cfg := mkConfig S_TL [43;48;48;58;48;48]%N 1000000000%Z S_RM [[102]%N] in
  let attrs := [(S_TO, Some [50;48;48;48;45;48;49;45;48;49;32;48;48;58;48;48;58;48;48]%N)] in
  trim_slashes [SP] <> [] /\
  status (rename_cfg rho_bad2 cfg) (mkElement (rn rho_bad2 [SP]) attrs) = Some true /\
  status cfg (mkElement [SP] attrs) = None.
Proof. split; [discriminate|]. split; vm_compute; reflexivity. Qed.

(** The document  <tl to='2000-01-01 00:00:00'> a <rm name='f'> b </rm> c </tl>. *)
Definition S_DATE : str := [50;48;48;48;45;48;49;45;48;49;32;48;48;58;48;48;58;48;48]%N.
Definition ex_tl_open : tag_ast :=
  mkTag 1 S_TL [mkAttr [SP] S_TO (Some (0, 0, QSingle, S_DATE))] [SP].
Definition ex_tl_close : tag_ast := mkTag 1 (SLASH :: S_TL) [] [SP].
Definition ex_rm_open : tag_ast :=
  mkTag 1 S_RM [mkAttr [SP] S_NAME (Some (0, 0, QSingle, [102]%N))] [SP].
Definition ex_rm_close : tag_ast := mkTag 1 (SLASH :: S_RM) [] [SP].

Definition ex_tast : list tast :=
  [ TE ex_tl_open ex_tl_close
       [ TT [97]%N; TE ex_rm_open ex_rm_close [ TT [98]%N ]; TT [99]%N ] ].

(** "tl" with offset "+00:00" at 2001-09-09, "rm" with the target "f". *)
Definition ex_cfg : config :=
  mkConfig S_TL [43;48;48;58;48;48]%N 1000000000%Z S_RM [[102]%N].

Example ex_tast_ok : tast_ok ex_tast.
Proof.
  repeat (first [ apply Forall_nil | apply Forall_cons | apply tok_TT
                | apply tok_TE; try (vm_compute; reflexivity) ]).
Qed.

Example ex_cfg_ok : cfg_ok name_dom ex_cfg.
Proof. repeat split. Qed.

(** The renamed configuration and the renamed bodies. *)
Example ex_cfg_renamed :
  rename_cfg rho_ex ex_cfg =
  mkConfig S_TIME_LIMITED [43;48;48;58;48;48]%N 1000000000%Z S_REMOVAL_MARKER [[102]%N].
Proof. vm_compute. reflexivity. Qed.

Example ex_bodies :
  to_ast ex_tast =
  [ AE [32;116;108;32;116;111;61;39;50;48;48;48;45;48;49;45;48;49;32;48;48;58;48;48;58;48;48;39;32]%N
       [32;47;116;108;32]%N
       [ AT [97]%N;
         AE [32;114;109;32;110;97;109;101;61;39;102;39;32]%N [32;47;114;109;32]%N [ AT [98]%N ];
         AT [99]%N ] ] /\
  to_ast (rename_tast rho_ex ex_tast) =
  [ AE ([32] ++ S_TIME_LIMITED ++ [32;116;111;61;39;50;48;48;48;45;48;49;45;48;49;32;48;48;58;48;48;58;48;48;39;32])%N
       ([32;47] ++ S_TIME_LIMITED ++ [32])%N
       [ AT [97]%N;
         AE ([32] ++ S_REMOVAL_MARKER ++ [32;110;97;109;101;61;39;102;39;32])%N
            ([32;47] ++ S_REMOVAL_MARKER ++ [32])%N [ AT [98]%N ];
         AT [99]%N ] ].
Proof. split; vm_compute; reflexivity. Qed.

(** Both elements are ready, before and after the renaming (computed), ... *)
Example ex_decisions :
  map (readyb ex_cfg) (ast_nodes 0 (to_ast ex_tast)) = [true; true] /\
  map (readyb (rename_cfg rho_ex ex_cfg)) (ast_nodes 0 (to_ast (rename_tast rho_ex ex_tast))) = [true; true] /\
  (* the renaming matters: the old configuration does not recognise the renamed document *)
  map (readyb ex_cfg) (ast_nodes 0 (to_ast (rename_tast rho_ex ex_tast))) = [false; false].
Proof. repeat split; vm_compute; reflexivity. Qed.

(** ... and the theorems apply to the example. *)
Example ex_theorems :
  Forall ast_ok (to_ast ex_tast) /\
  tast_ok (rename_tast rho_ex ex_tast) /\
  Forall ast_ok (to_ast (rename_tast rho_ex ex_tast)) /\
  same_tree P_comment (P_elem rho_ex) (to_ast ex_tast) (to_ast (rename_tast rho_ex ex_tast)) /\
  map (readyb (rename_cfg rho_ex ex_cfg)) (ast_nodes 0 (to_ast (rename_tast rho_ex ex_tast))) =
  map (readyb ex_cfg) (ast_nodes 0 (to_ast ex_tast)) /\
  no_unwrap (to_ast (rename_tast rho_ex ex_tast)).
Proof.
  pose proof ex_tast_ok as Hok. pose proof (tast_ok_names ex_tast Hok) as Hn.
  pose proof (tast_ok_rename name_dom rho_ex ex_tast rho_ex_admissible Hn Hok) as Hok'.
  split; [apply tast_ok_ast_ok; exact Hok|]. split; [exact Hok'|].
  split; [apply tast_ok_ast_ok; exact Hok'|]. split; [apply same_tree_rename; exact Hok|].
  split; [apply (readyb_rename_nodes name_dom rho_ex ex_cfg ex_tast 0 rho_ex_admissible ex_cfg_ok Hok Hn)|].
  apply (no_unwrap_rename name_dom rho_ex ex_tast rho_ex_admissible Hok Hn).
  apply no_unwrap_openers. intros t Ht.
  assert (forallb (fun t => negb (has_attr S_UNWRAP (el_attrs (el_of (print_body t)))))
                  (openers_of ex_tast) = true) as H by (vm_compute; reflexivity).
  rewrite forallb_forall in H. apply negb_true_iff. apply (H t Ht).
Qed.

Print Assumptions slashes_trim.
Print Assumptions rn_trim.
Print Assumptions rn_starts.
Print Assumptions rn_inj_iff.
Print Assumptions rn_wf_name.
Print Assumptions rn_wf_utf8.
Print Assumptions rn_noslash.
Print Assumptions wf_tag_rename.
Print Assumptions wf_utf8_rename.
Print Assumptions parse_rename_tag.
Print Assumptions status_rename.
Print Assumptions ready_rename.
Print Assumptions status_rename_tag.
Print Assumptions el_readyb_rename_tag.
Print Assumptions unwrap_rename_tag.
Print Assumptions closes_rename.
Print Assumptions tast_ok_ast_ok.
Print Assumptions tast_ok_names.
Print Assumptions tast_ok_rename.
Print Assumptions same_tree_rename.
Print Assumptions same_tree_rename_any.
Print Assumptions nodes_b1_openers.
Print Assumptions openers_rename.
Print Assumptions el_readyb_rename_openers.
Print Assumptions status_rename_openers.
Print Assumptions readyb_rename_nodes.
Print Assumptions no_unwrap_rename.
Print Assumptions no_unwrap_rename_iff.
Print Assumptions rho_ex_admissible.
Print Assumptions rho_ex_not_total.
Print Assumptions rho_bad_admissible.
Print Assumptions rho_bad_counterexample.
Print Assumptions rho_bad2_admissible.
Print Assumptions rho_bad2_counterexample.
Print Assumptions ex_tast_ok.
Print Assumptions ex_cfg_ok.
Print Assumptions ex_cfg_renamed.
Print Assumptions ex_bodies.
Print Assumptions ex_decisions.
Print Assumptions ex_theorems.
