(** C19 with unwrap-block elements: cleaning twice = cleaning once, for the renderings of
    abstract syntax trees in the "strict" domain ([strict], Part D):
    (S1) the children of every element with the [unwrap-block] attribute are one text [AT t], or
         [AT t1 :: mid ++ [AT t2]] where [t1] and [t2] contain at least two line breaks each
         (the wrapper lines carry no tags);
    (S2) no tag body contains a line break.
    The end delimiter must not begin with a blank ([de_nb], as in [Proofs.SimClean]).

    Part A: the finders that do not pause (first / last line break).
    Part B: counting line breaks.
    Part C: the ready forest of ANY syntax tree: its ranges, its well-formedness, the merged
            markers and the mask [del1u] (no strictness needed).
    Part D: the strict domain, on trees and on documents.
    Part E: the ranges of the nodes of a strict tree: the two parts of an unwrapped node stay
            inside its own tags and its first / last text child; the mask on tags ([tdel]) and
            on texts; the nodes without a range ([strict_none]).
    Part F: one run of [clean] on a rendering, with pairs: every deleted whitespace symbol is
            (i) linked to a seam by whitespace or (ii) within the leading blanks of its line.
    Part G: neither kind reaches into a kept tag.
    Part H: deleting from well-formed UTF-8 at whitespace borders.
    Part I: one run = one pair-respecting mask ([clean_run_mask_strict]).
    Part J: settled trees (no node is ready, except unwrap-blocks whose content is empty or one
            text with at most two line breaks) are fixed points of [clean].
    Part K: the output tree ([clean_output_ast_strict]) and idempotence
            ([clean_idempotent_strict]).
    Part L: a decision procedure for [strict], and an instance. *)
From Coq Require Import List NArith ZArith Arith Bool Lia PeanoNat.
Import ListNotations.
From Chiri Require Import Base.Bytes Base.Res Model.Tokenizer Model.TagParser Model.TreeParser
     Model.Finders Model.Markers Model.Format Model.Clean
     Spec.Ranges Spec.Forest Spec.Rename Spec.Simulation Spec.Lines
     Proofs.ResLemmas Proofs.Utf8 Proofs.MarkerProofs Proofs.RangeProofs Proofs.CollectProofs
     Proofs.FormatterProofs Proofs.FormatAssembly Proofs.CleanProofs Proofs.ConfinedProofs
     Proofs.RenameProofs Proofs.SimFlat Proofs.SimStrings Proofs.SimFront Proofs.MonoMap
     Proofs.SimClean Proofs.WellNested Proofs.DocMask Proofs.AstCollect Proofs.Idempotent
     Proofs.UnwrapDoc.

(* ------------------------------------------------------------------------- *)
(** * Part A: the finders that do not pause *)

Lemma sym_nl_dec (l : list sym) i : {nth_error l i = Some (B NL)} + {nth_error l i <> Some (B NL)}.
Proof.
  destruct (nth_error l i) as [[c| |]|]; try (right; discriminate).
  destruct (N.eq_dec c NL) as [->|H]; [left; reflexivity | right; intros E; inversion E; contradiction].
Qed.

Lemma least_nl l q : forall d j, q - j = d -> j <= q -> nth_error l q = Some (B NL) ->
  exists p, j <= p <= q /\ nth_error l p = Some (B NL) /\
            forall i, j <= i -> i < p -> nth_error l i <> Some (B NL).
Proof.
  induction d as [|d IH]; intros j Hd Hj Hq.
  - exists q. split; [lia|]. split; [exact Hq|]. intros i H1 H2. lia.
  - destruct (sym_nl_dec l j) as [E|E].
    + exists j. split; [lia|]. split; [exact E|]. intros i H1 H2. lia.
    + destruct (IH (S j) ltac:(lia) ltac:(lia) Hq) as (p & Hp & Hn & Hm).
      exists p. split; [lia|]. split; [exact Hn|]. intros i H1 H2.
      destruct (Nat.eq_dec i j) as [->|Ne]; [exact E | apply Hm; lia].
Qed.

Lemma greatest_nl l q : forall d j, j - q = d -> q < j -> nth_error l q = Some (B NL) ->
  exists p, q <= p < j /\ nth_error l p = Some (B NL) /\
            forall i, p < i -> i < j -> nth_error l i <> Some (B NL).
Proof.
  induction d as [|d IH]; intros j Hd Hj Hq; [lia|].
  destruct j as [|j]; [lia|].
  destruct (sym_nl_dec l j) as [E|E].
  - exists j. split; [lia|]. split; [exact E|]. intros i H1 H2. lia.
  - assert (q <> j) as Ne by (intros ->; contradiction).
    destruct (IH j ltac:(lia) ltac:(lia) Hq) as (p & Hp & Hn & Hm).
    exists p. split; [lia|]. split; [exact Hn|]. intros i H1 H2.
    destruct (Nat.eq_dec i j) as [->|Ne']; [exact E | apply Hm; lia].
Qed.

(** A line break at or after [j]: the forward finder succeeds at or before it. *)
Lemma next_lb_le l j q : j <= q -> nth_error l q = Some (B NL) ->
  exists p, a_next_lb l j false = Some p /\ j <= p <= q.
Proof.
  intros Hj Hq. destruct (least_nl l q (q - j) j eq_refl Hj Hq) as (p & Hp & Hn & Hm).
  exists p. split; [|exact Hp]. apply a_next_lb_first; [lia | exact Hn | exact Hm].
Qed.

Lemma prev_lb_ge l j q : q < j -> j <= length l -> nth_error l q = Some (B NL) ->
  exists p, a_prev_lb l j false = Some p /\ q <= p < j.
Proof.
  intros Hj Hl Hq. destruct (greatest_nl l q (j - q) j eq_refl Hj Hq) as (p & Hp & Hn & Hm).
  exists p. split; [|exact Hp]. apply a_prev_lb_last; [lia | exact Hl | exact Hn | exact Hm].
Qed.

Lemma a_ub_end_inv l j e : a_ub_end l j = Some e ->
  exists p, j <= p /\ p < e /\ e < length l /\
            nth_error l p = Some (B NL) /\ nth_error l e = Some (B NL).
Proof.
  unfold a_ub_end. destruct (a_next_lb l j false) as [p|] eqn:E1; [|discriminate].
  intros E2. apply a_next_lb_some in E1. apply a_next_lb_some in E2.
  exists p. repeat split; try lia; try tauto.
Qed.

Lemma a_ub_start_inv l j s : a_ub_start l j = Some s ->
  exists q, s < q /\ q < j /\ nth_error l q = Some (B NL) /\ nth_error l s = Some (B NL).
Proof.
  unfold a_ub_start. destruct (a_prev_lb l j false) as [q|] eqn:E1; [|discriminate].
  intros E2. apply a_prev_lb_some in E1. apply a_prev_lb_some in E2.
  exists q. repeat split; try lia; try tauto.
Qed.

Lemma ub_end_le l j q1 q2 : j <= q1 -> q1 < q2 ->
  nth_error l q1 = Some (B NL) -> nth_error l q2 = Some (B NL) ->
  exists e, a_ub_end l j = Some e /\ j < e /\ e <= q2.
Proof.
  intros H1 H2 N1 N2. destruct (next_lb_le l j q1 H1 N1) as (p & Ep & Hp).
  destruct (next_lb_le l (S p) q2 ltac:(lia) N2) as (e & Ee & He).
  exists e. unfold a_ub_end. rewrite Ep. split; [exact Ee | lia].
Qed.

Lemma ub_start_ge l j q1 q2 : q1 < q2 -> q2 < j -> j <= length l ->
  nth_error l q1 = Some (B NL) -> nth_error l q2 = Some (B NL) ->
  exists s, a_ub_start l j = Some s /\ q1 <= s /\ S s < j.
Proof.
  intros H1 H2 Hl N1 N2. destruct (prev_lb_ge l j q2 H2 Hl N2) as (q & Eq & Hq).
  destruct (prev_lb_ge l q q1 ltac:(lia) ltac:(lia) N1) as (s & Es & Hs).
  exists s. unfold a_ub_start. rewrite Eq. split; [exact Es | lia].
Qed.

(** The shape of the range of an unwrap-block. *)
Lemma a_unwrap_cases l sb se eb ee :
  a_unwrap l sb se eb ee = ((sb, sb), None) \/
  (exists e, a_ub_end l se = Some e /\ a_ub_start l eb = Some e /\
             a_unwrap l sb se eb ee = ((sb, ee), None)) \/
  (exists e s, a_ub_end l se = Some e /\ a_ub_start l eb = Some s /\ e < s /\
               a_unwrap l sb se eb ee = ((sb, e), Some (S s, ee))).
Proof.
  unfold a_unwrap. destruct (a_ub_end l se) as [e|]; [|left; reflexivity].
  destruct (a_ub_start l eb) as [s|]; [|left; reflexivity].
  destruct (Nat.ltb_spec e s) as [H|H].
  - right. right. exists e, s. repeat split; assumption.
  - destruct (Nat.eqb_spec s e) as [->|Ne]; [|left; reflexivity].
    right. left. exists e. repeat split.
Qed.

(* ------------------------------------------------------------------------- *)
(** * Part B: counting line breaks *)

Definition nlcount (t : str) : nat := length (filter (fun c => beq c NL) t).

Lemma nlcount_app a b : nlcount (a ++ b) = nlcount a + nlcount b.
Proof. unfold nlcount. rewrite filter_app, app_length. reflexivity. Qed.

Lemma nlcount_cons c t : nlcount (c :: t) = (if beq c NL then 1 else 0) + nlcount t.
Proof. unfold nlcount. cbn [filter]. destruct (beq c NL); reflexivity. Qed.

Lemma beq_NL c : beq c NL = true <-> c = NL.
Proof. unfold beq. apply N.eqb_eq. Qed.

(** The first line break. *)
Lemma nlcount_first : forall t, 1 <= nlcount t ->
  exists x, nth_error t x = Some NL /\ nlcount t = S (nlcount (skipn (S x) t)).
Proof.
  induction t as [|c t IH]; intros H; [cbn in H; lia|].
  rewrite nlcount_cons in *. destruct (beq c NL) eqn:E.
  - apply beq_NL in E. subst c. exists 0. split; reflexivity.
  - destruct (IH ltac:(lia)) as (x & Hx & Hc). exists (S x). split; [exact Hx|]. cbn [skipn Nat.add]. exact Hc.
Qed.

Lemma nlcount_ge t x : nth_error t x = Some NL -> S (nlcount (skipn (S x) t)) <= nlcount t.
Proof.
  intros H. rewrite (split_nth t x NL H) at 2. rewrite nlcount_app, nlcount_cons.
  replace (beq NL NL) with true by reflexivity. lia.
Qed.

Lemma nl_two t : 2 <= nlcount t ->
  exists x1 x2, x1 < x2 /\ nth_error t x1 = Some NL /\ nth_error t x2 = Some NL.
Proof.
  intros H. destruct (nlcount_first t ltac:(lia)) as (x1 & H1 & C1).
  destruct (nlcount_first (skipn (S x1) t) ltac:(lia)) as (x & H2 & _).
  rewrite nth_error_skipn_add' in H2. exists x1, (S x1 + x). split; [lia|]. split; assumption.
Qed.

Lemma nl_three t : 3 <= nlcount t ->
  exists x1 x2 x3, x1 < x2 /\ x2 < x3 /\
    nth_error t x1 = Some NL /\ nth_error t x2 = Some NL /\ nth_error t x3 = Some NL.
Proof.
  intros H. destruct (nlcount_first t ltac:(lia)) as (x1 & H1 & C1).
  destruct (nl_two (skipn (S x1) t) ltac:(lia)) as (y2 & y3 & L & H2 & H3).
  rewrite nth_error_skipn_add' in H2, H3.
  exists x1, (S x1 + y2), (S x1 + y3). repeat split; try lia; assumption.
Qed.

Lemma nlcount_three t x1 x2 x3 : x1 < x2 -> x2 < x3 ->
  nth_error t x1 = Some NL -> nth_error t x2 = Some NL -> nth_error t x3 = Some NL ->
  3 <= nlcount t.
Proof.
  intros L1 L2 H1 H2 H3. pose proof (nlcount_ge t x1 H1) as G1.
  set (t1 := skipn (S x1) t) in *.
  assert (nth_error t1 (x2 - S x1) = Some NL) as H2'.
  { unfold t1. rewrite nth_error_skipn_add'. rewrite <- H2. f_equal. lia. }
  assert (nth_error t1 (x3 - S x1) = Some NL) as H3'.
  { unfold t1. rewrite nth_error_skipn_add'. rewrite <- H3. f_equal. lia. }
  pose proof (nlcount_ge t1 _ H2') as G2.
  set (t2 := skipn (S (x2 - S x1)) t1) in *.
  assert (nth_error t2 (x3 - S x2) = Some NL) as H3''.
  { unfold t2. rewrite nth_error_skipn_add'. rewrite <- H3'. f_equal. lia. }
  pose proof (nlcount_ge t2 _ H3'') as G3. lia.
Qed.

Lemma nlcount_kept : forall t i P, nlcount (kept_from i P t) <= nlcount t.
Proof.
  induction t as [|c t IH]; intros i P; [apply le_n|].
  cbn [kept_from]. destruct (P i); rewrite ?nlcount_cons; specialize (IH (S i) P); lia.
Qed.

(* ------------------------------------------------------------------------- *)
(** * Part C: the ready forest of any syntax tree (with unwrap-block elements) *)

(** The removable range of a node, when it is collected. *)
Definition node_rr (cfg : config) (doc : list item) (n : node) : option removable_range :=
  match a_element_range cfg doc false (el_of (node_b1 n)) (node_open n) (node_close n) with
  | Some (r, _) => Some r
  | None => None
  end.

Lemma node_rr_some cfg doc n r : node_rr cfg doc n = Some r ->
  ready cfg n /\ r = a_create doc (el_of (node_b1 n)) (node_open n) (node_close n) /\
  fst (fst r) < snd (fst r).
Proof.
  unfold node_rr, a_element_range, ready.
  destruct (status cfg (el_of (node_b1 n))) as [[|]|]; try discriminate.
  destruct (a_create doc (el_of (node_b1 n)) (node_open n) (node_close n)) as [[a b] cl].
  destruct (Nat.ltb_spec a b) as [H|H]; [|discriminate].
  intros E. inversion E; subst r. cbn [fst snd]. repeat split. exact H.
Qed.

Lemma node_rr_none cfg doc n : node_rr cfg doc n = None ->
  ~ ready cfg n \/
  (ready cfg n /\
   snd (fst (a_create doc (el_of (node_b1 n)) (node_open n) (node_close n)))
   <= fst (fst (a_create doc (el_of (node_b1 n)) (node_open n) (node_close n)))).
Proof.
  unfold node_rr, a_element_range, ready.
  destruct (status cfg (el_of (node_b1 n))) as [[|]|]; try (intros _; left; discriminate).
  destruct (a_create doc (el_of (node_b1 n)) (node_open n) (node_close n)) as [[a b] cl].
  destruct (Nat.ltb_spec a b) as [H|H]; [discriminate|].
  intros _. right. split; [reflexivity | exact H].
Qed.

Lemma collect_node_rr cfg doc b1 b2 o c chp :
  fst (collect_node cfg doc false (el_of b1) o c chp) =
  match node_rr cfg doc (b1, b2, o, c) with Some r => [RT r (fst chp)] | None => fst chp end.
Proof.
  unfold collect_node, node_rr. cbn [node_b1 node_open node_close].
  unfold a_element_range.
  destruct (status cfg (el_of b1)) as [[|]|]; try reflexivity.
  destruct (a_create doc (el_of b1) o c) as [[a b] cl]. destruct (a <? b); reflexivity.
Qed.

(** The shape of a collected range over the position function [F = fstart doc]. *)
Lemma node_rr_shape cfg doc n r : node_rr cfg doc n = Some r ->
  let F := fstart doc in let o := node_open n in let c := node_close n in
  (r = ((F o, F (S c)), None) /\ F o < F (S c)) \/
  (exists e s, r = ((F o, e), Some (S s, F (S c))) /\ F o < e /\ e < s /\
     has_attr S_UNWRAP (el_attrs (el_of (node_b1 n))) = true /\
     a_ub_end (flat doc) (F (S o)) = Some e /\ a_ub_start (flat doc) (F c) = Some s).
Proof.
  intros H. apply node_rr_some in H. destruct H as (_ & -> & Hne). cbv zeta.
  unfold a_create in *. destruct (has_attr S_UNWRAP _) eqn:EU.
  - destruct (a_unwrap_cases (flat doc) (fstart doc (node_open n)) (fstart doc (S (node_open n)))
                (fstart doc (node_close n)) (fstart doc (S (node_close n))))
      as [E|[(e & _ & _ & E)|(e & s & E1 & E2 & L & E)]]; rewrite E in *; cbn [fst snd] in Hne.
    + lia.
    + left. split; [reflexivity | exact Hne].
    + right. exists e, s. repeat split; assumption.
  - cbn [fst snd] in Hne. left. split; [reflexivity | exact Hne].
Qed.

(** ** The ranges of the forest *)

Definition uranges_are (cfg : config) (doc : list item) (rs : list Ranges.range) (ns : list node) : Prop :=
  forall r, In r rs <-> exists n rr, In n ns /\ node_rr cfg doc n = Some rr /\ In r (rr_ranges rr).

Lemma uranges_are_app cfg doc r1 n1 r2 n2 :
  uranges_are cfg doc r1 n1 -> uranges_are cfg doc r2 n2 -> uranges_are cfg doc (r1 ++ r2) (n1 ++ n2).
Proof.
  intros H1 H2 r. rewrite in_app_iff, (H1 r), (H2 r). split.
  - intros [(n & rr & Hn & K)|(n & rr & Hn & K)]; exists n, rr; (split; [apply in_or_app | exact K]);
      [left | right]; exact Hn.
  - intros (n & rr & Hn & K). apply in_app_or in Hn. destruct Hn as [Hn|Hn]; [left | right];
      exists n, rr; (split; [exact Hn | exact K]).
Qed.

Lemma ucollect_ranges_both cfg doc :
  (forall a base, uranges_are cfg doc (forest_ranges (fst (ast_collect1 cfg doc false base a)))
                              (nodes1 base a)) /\
  (forall f base, uranges_are cfg doc (forest_ranges (fst (ast_collect cfg doc false base f)))
                              (ast_nodes base f)).
Proof.
  apply (ast_forest_ind
    (fun a => forall base, uranges_are cfg doc (forest_ranges (fst (ast_collect1 cfg doc false base a)))
                                       (nodes1 base a))
    (fun f => forall base, uranges_are cfg doc (forest_ranges (fst (ast_collect cfg doc false base f)))
                                       (ast_nodes base f))).
  - intros t base r. cbn. split; [intros [] | intros (n & rr & [] & _)].
  - intros b base r. cbn. split; [intros [] | intros (n & rr & [] & _)].
  - intros b1 b2 kids IH base. rewrite ast_collect1_AE, nodes1_AE.
    rewrite (collect_node_rr cfg doc b1 b2). specialize (IH (S base)).
    set (n0 := (b1, b2, base, S base + sizes kids) : node).
    intros r. destruct (node_rr cfg doc n0) as [rr0|] eqn:E.
    + unfold forest_ranges at 1. cbn [flat_map rtree_ranges]. rewrite app_nil_r, in_app_iff.
      fold (forest_ranges (fst (ast_collect cfg doc false (S base) kids))). rewrite (IH r). split.
      * intros [Hr|(n & rr & Hn & K)].
        -- exists n0, rr0. split; [left; reflexivity|]. split; [exact E | exact Hr].
        -- exists n, rr. split; [right; exact Hn | exact K].
      * intros (n & rr & [<-|Hn] & K1 & K2).
        -- left. rewrite E in K1. inversion K1; subst rr. exact K2.
        -- right. exists n, rr. split; [exact Hn|]. split; assumption.
    + rewrite (IH r). split.
      * intros (n & rr & Hn & K). exists n, rr. split; [right; exact Hn | exact K].
      * intros (n & rr & [<-|Hn] & K1 & K2).
        -- rewrite E in K1. discriminate K1.
        -- exists n, rr. split; [exact Hn|]. split; assumption.
  - intros base r. cbn. split; [intros [] | intros (n & rr & [] & _)].
  - intros x f Hx Hf base. cbn [ast_collect ast_nodes]. unfold pair_app. cbn [fst].
    rewrite forest_ranges_app. apply uranges_are_app; [apply Hx | apply Hf].
Qed.

(** ** Well-formedness of the forest *)

Lemma ucollect_wf_both cfg doc :
  (forall a base lo hi, tag_strict (fstart doc) (nodes1 base a) ->
     lo <= fstart doc base -> fstart doc (base + size a) <= hi ->
     wf_forest lo hi (fst (ast_collect1 cfg doc false base a))) /\
  (forall f base lo hi, tag_strict (fstart doc) (ast_nodes base f) ->
     lo <= fstart doc base -> fstart doc (base + sizes f) <= hi ->
     wf_forest lo hi (fst (ast_collect cfg doc false base f))).
Proof.
  pose proof (fstart_mono doc) as HF. set (F := fstart doc) in *.
  apply (ast_forest_ind
    (fun a => forall base lo hi, tag_strict F (nodes1 base a) ->
       lo <= F base -> F (base + size a) <= hi ->
       wf_forest lo hi (fst (ast_collect1 cfg doc false base a)))
    (fun f => forall base lo hi, tag_strict F (ast_nodes base f) ->
       lo <= F base -> F (base + sizes f) <= hi ->
       wf_forest lo hi (fst (ast_collect cfg doc false base f)))).
  - intros; exact I.
  - intros; exact I.
  - intros b1 b2 kids IH base lo hi Hs Hlo Hhi.
    rewrite nodes1_AE in Hs. rewrite ast_collect1_AE, (collect_node_rr cfg doc b1 b2).
    destruct (Hs (b1, b2, base, S base + sizes kids) (or_introl eq_refl)) as [So Sc].
    cbn [node_open node_close] in So, Sc.
    assert (tag_strict F (ast_nodes (S base) kids)) as Sk by (intros n Hn; apply Hs; right; exact Hn).
    cbn [size] in Hhi. fold (sizes kids) in Hhi.
    replace (base + S (S (sizes kids))) with (S (S base + sizes kids)) in Hhi by lia.
    pose proof (HF (S base) (S base + sizes kids) ltac:(lia)) as M1.
    set (n0 := (b1, b2, base, S base + sizes kids) : node).
    destruct (node_rr cfg doc n0) as [rr0|] eqn:E.
    + pose proof (node_rr_shape cfg doc n0 rr0 E) as Sh. cbv zeta in Sh.
      cbn [node_open node_close node_b1 n0] in Sh. fold F in Sh.
      cbn [wf_forest]. split; [|exact I].
      destruct Sh as [[-> L]|(e & s & -> & L1 & L2 & _ & _ & Es)]; apply wf_rtree_unfold;
        unfold rr_hi; cbn [fst snd].
      * split; [exact Hlo|]. split; [exact L|]. split; [exact Hhi|]. split; [exact I|].
        apply IH; [exact Sk | lia | lia].
      * apply a_ub_start_some in Es. destruct Es as [Es _].
        split; [exact Hlo|]. split; [exact L1|]. split; [exact Hhi|]. split; [lia|].
        apply IH; [exact Sk | lia | lia].
    + apply IH; [exact Sk | lia | lia].
  - intros; exact I.
  - intros x f Hx Hf base lo hi Hs Hlo Hhi.
    cbn [ast_nodes] in Hs. apply tag_strict_app in Hs. destruct Hs as [S1 S2].
    rewrite sizes_cons in Hhi. cbn [ast_collect]. unfold pair_app. cbn [fst].
    pose proof (HF base (base + size x) ltac:(lia)).
    pose proof (HF (base + size x) (base + (size x + sizes f)) ltac:(lia)).
    apply (wf_forest_app _ _ lo (F (base + size x)) hi); try lia.
    + apply Hx; [exact S1 | exact Hlo | lia].
    + apply Hf; [exact S2 | lia | rewrite <- Nat.add_assoc; exact Hhi].
Qed.

Theorem ucollect_wf cfg f : Forall ast_ok f ->
  wf_forest 0 (length (flat (doc_of f))) (fst (a_collect cfg (doc_of f) false)).
Proof.
  intros Hok. rewrite (a_collect_ast cfg false f Hok).
  apply (proj2 (ucollect_wf_both cfg (doc_of f))); [apply ast_tag_strict | lia |].
  cbn [Nat.add]. rewrite <- sizes_doc. rewrite fstart_all by lia. lia.
Qed.

(** ** The mask of the marker stage *)

Definition rr_hasb (r : removable_range) (i : nat) : bool := in_rangesb (rr_ranges r) i.

Definition node_del (cfg : config) (doc : list item) (n : node) (i : nat) : bool :=
  match node_rr cfg doc n with Some r => rr_hasb r i | None => false end.

Definition del1u (cfg : config) (f : list ast) (i : nat) : bool :=
  existsb (fun n => node_del cfg (doc_of f) n i) (ast_nodes 0 f).

Lemma del1u_spec cfg f i : del1u cfg f i = true <->
  exists n rr, In n (ast_nodes 0 f) /\ node_rr cfg (doc_of f) n = Some rr /\
               in_ranges (rr_ranges rr) i.
Proof.
  unfold del1u, node_del, rr_hasb. rewrite existsb_exists. split.
  - intros (n & Hn & H). destruct (node_rr cfg (doc_of f) n) as [rr|] eqn:E; [|discriminate H].
    exists n, rr. split; [exact Hn|]. split; [exact E|]. apply in_rangesb_spec. exact H.
  - intros (n & rr & Hn & E & H). exists n. split; [exact Hn|]. rewrite E.
    apply in_rangesb_spec. exact H.
Qed.

(** The merged markers: they exist, are sorted, non-empty, bounded, cover exactly the mask, and
    their pair indices are consistent. *)
Theorem ucollect_markers cfg f : Forall ast_ok f ->
  exists ams, merge_markers (fst (a_collect cfg (doc_of f) false)) = Ok ams /\
    sorted_nonempty_from 0 (map fst ams) /\
    bounded_by (length (flat (doc_of f))) (map fst ams) /\
    (forall i, in_rangesb (map fst ams) i = del1u cfg f i).
Proof.
  intros Hok.
  destruct (merge_markers_spec _ 0 _ (ucollect_wf cfg f Hok)) as (ams & E & S1 & B1 & P1 & _).
  exists ams. repeat split; try assumption.
  intros i. apply eq_true_iff_eq. rewrite in_rangesb_spec, (P1 i), del1u_spec.
  rewrite (a_collect_ast cfg false f Hok).
  pose proof (proj2 (ucollect_ranges_both cfg (doc_of f)) f 0) as HR.
  unfold in_ranges. split.
  - intros (r & Hr & Hi). apply HR in Hr. destruct Hr as (n & rr & Hn & En & Hin).
    exists n, rr. split; [exact Hn|]. split; [exact En|]. exists r. split; assumption.
  - intros (n & rr & Hn & En & (r & Hin & Hi)). exists r. split; [|exact Hi].
    apply HR. exists n, rr. repeat split; assumption.
Qed.

(* ------------------------------------------------------------------------- *)
(** * Part D: the strict domain *)

Definition is_unwrap (b1 : str) : bool := has_attr S_UNWRAP (el_attrs (el_of b1)).

(** (S1) The children of an unwrap-block element: one text, or a first and a last text with at
    least two line breaks each (the wrapper lines carry no tags). *)
Definition wrapper_kids (kids : list ast) : Prop :=
  (exists t, kids = [AT t]) \/
  (exists t1 mid t2, kids = AT t1 :: mid ++ [AT t2] /\ 2 <= nlcount t1 /\ 2 <= nlcount t2).

(** (S1) at every unwrap-block element; (S2) no tag body contains a line break. *)
Fixpoint strict1 (a : ast) : Prop :=
  match a with
  | AT _ => True
  | AC b => ~ In NL b
  | AE b1 b2 kids =>
    ~ In NL b1 /\ ~ In NL b2 /\ (is_unwrap b1 = true -> wrapper_kids kids) /\
    (fix all (l : list ast) : Prop :=
       match l with [] => True | x :: l' => strict1 x /\ all l' end) kids
  end.
Definition strict (f : list ast) : Prop := Forall strict1 f.

Lemma strict1_AE b1 b2 kids :
  strict1 (AE b1 b2 kids) <->
  ~ In NL b1 /\ ~ In NL b2 /\ (is_unwrap b1 = true -> wrapper_kids kids) /\ strict kids.
Proof.
  cbn [strict1].
  assert ((fix all (l : list ast) : Prop :=
             match l with [] => True | x :: l' => strict1 x /\ all l' end) kids <-> strict kids) as E.
  { unfold strict. induction kids as [|x kids IH].
    - split; [constructor | intros _; exact I].
    - split.
      + intros [H1 H2]. constructor; [exact H1 | apply IH; exact H2].
      + intros H. inversion H; subst. split; [assumption | apply IH; assumption]. }
  rewrite E. reflexivity.
Qed.

(** (S2) on the document. *)
Lemma strict_tags_both :
  (forall a, strict1 a -> forall b, In (Tag b) (items_of a) -> ~ In NL b) /\
  (forall f, strict f -> forall b, In (Tag b) (doc_of f) -> ~ In NL b).
Proof.
  apply (ast_forest_ind
    (fun a => strict1 a -> forall b, In (Tag b) (items_of a) -> ~ In NL b)
    (fun f => strict f -> forall b, In (Tag b) (doc_of f) -> ~ In NL b)).
  - intros t _ b [E|[]]. discriminate E.
  - intros b0 H b [E|[]]. inversion E; subst. exact H.
  - intros b1 b2 kids IH H b Hin. apply strict1_AE in H. destruct H as (H1 & H2 & _ & Hk).
    rewrite items_AE in Hin. apply in_app_or in Hin. destruct Hin as [[E|[]]|Hin].
    + inversion E; subst. exact H1.
    + apply in_app_or in Hin. destruct Hin as [Hin|[E|[]]].
      * apply (IH Hk b Hin).
      * inversion E; subst. exact H2.
  - intros _ b [].
  - intros x f Hx Hf H b Hin. inversion H; subst. rewrite doc_of_cons in Hin.
    apply in_app_or in Hin. destruct Hin as [Hin|Hin]; [apply Hx | apply Hf]; assumption.
Qed.

Lemma strict_tags f : strict f -> forall b, In (Tag b) (doc_of f) -> ~ In NL b.
Proof. apply (proj2 strict_tags_both). Qed.

(** (S1) on the document, relative to a base index. *)
Definition wrap_rel (its : list item) (base : nat) (n : node) : Prop :=
  match n with
  | (b1, b2, o, c) =>
    is_unwrap b1 = true ->
    exists i j, o = base + i /\ c = base + j /\
      ((exists t, j = S (S i) /\ nth_error its (S i) = Some (Txt t)) \/
       (exists t1 t2, S (S i) < j /\ nth_error its (S i) = Some (Txt t1) /\
                      nth_error its (j - 1) = Some (Txt t2) /\
                      2 <= nlcount t1 /\ 2 <= nlcount t2))
  end.

Lemma wrap_rel_app_l its its' base n : wrap_rel its base n -> wrap_rel (its ++ its') base n.
Proof.
  destruct n as [[[b1 b2] o] c]. intros H U. destruct (H U) as (i & j & -> & -> & K).
  exists i, j. split; [reflexivity|]. split; [reflexivity|].
  destruct K as [(t & -> & H1)|(t1 & t2 & L & H1 & H2 & C)].
  - left. exists t. split; [reflexivity|].
    rewrite nth_error_app1; [exact H1 | apply nth_error_Some; congruence].
  - right. exists t1, t2. split; [exact L|]. split; [|split; [|exact C]].
    + rewrite nth_error_app1; [exact H1 | apply nth_error_Some; congruence].
    + rewrite nth_error_app1; [exact H2 | apply nth_error_Some; congruence].
Qed.

Lemma wrap_rel_app_r its' its base n :
  wrap_rel its (base + length its') n -> wrap_rel (its' ++ its) base n.
Proof.
  destruct n as [[[b1 b2] o] c]. intros H U. destruct (H U) as (i & j & -> & -> & K).
  exists (length its' + i), (length its' + j). split; [lia|]. split; [lia|].
  destruct K as [(t & -> & H1)|(t1 & t2 & L & H1 & H2 & C)].
  - left. exists t. split; [lia|].
    rewrite nth_error_app2 by lia. rewrite <- H1. f_equal. lia.
  - right. exists t1, t2. split; [lia|]. split; [|split; [|exact C]].
    + rewrite nth_error_app2 by lia. rewrite <- H1. f_equal. lia.
    + rewrite nth_error_app2 by lia. rewrite <- H2. f_equal. lia.
Qed.

Lemma strict_nodes_both :
  (forall a, strict1 a -> forall base n, In n (nodes1 base a) -> wrap_rel (items_of a) base n) /\
  (forall f, strict f -> forall base n, In n (ast_nodes base f) -> wrap_rel (doc_of f) base n).
Proof.
  apply (ast_forest_ind
    (fun a => strict1 a -> forall base n, In n (nodes1 base a) -> wrap_rel (items_of a) base n)
    (fun f => strict f -> forall base n, In n (ast_nodes base f) -> wrap_rel (doc_of f) base n)).
  - intros t _ base n [].
  - intros b _ base n [].
  - intros b1 b2 kids IH H base n Hn. apply strict1_AE in H. destruct H as (_ & _ & HW & Hk).
    rewrite nodes1_AE in Hn. destruct Hn as [<-|Hn].
    + intros U. exists 0, (S (sizes kids)). split; [lia|]. split; [lia|].
      destruct (HW U) as [(t & ->)|(t1 & mid & t2 & -> & C)].
      * left. exists t. split; [reflexivity|]. reflexivity.
      * right. exists t1, t2.
        assert (sizes (AT t1 :: mid ++ [AT t2]) = S (sizes mid + 1)) as Es.
        { rewrite sizes_cons. cbn [size]. unfold sizes. rewrite map_app, list_sum_app. reflexivity. }
        rewrite Es. split; [lia|]. split; [reflexivity|]. split; [|exact C].
        rewrite items_AE, doc_of_cons, doc_of_app. cbn [items_of doc_of flat_map app].
        replace (S (S (sizes mid + 1)) - 1) with (S (S (length (doc_of mid)))) by (rewrite sizes_doc; lia).
        cbn [nth_error]. rewrite <- app_assoc. rewrite nth_error_app2 by lia.
        rewrite Nat.sub_diag. reflexivity.
    + rewrite items_AE. apply wrap_rel_app_r. apply wrap_rel_app_l. cbn [length].
      rewrite Nat.add_1_r. apply (IH Hk). exact Hn.
  - intros _ base n [].
  - intros x f Hx Hf H base n Hn. inversion H; subst. cbn [ast_nodes] in Hn. rewrite doc_of_cons.
    apply in_app_or in Hn. destruct Hn as [Hn|Hn].
    + apply wrap_rel_app_l. apply Hx; assumption.
    + apply wrap_rel_app_r. rewrite size_items. apply Hf; assumption.
Qed.

(** (S1) for a node of the forest, over the item indices of [doc_of f]. *)
Definition wrap_ok (doc : list item) (n : node) : Prop :=
  let o := node_open n in let c := node_close n in
  (exists t, c = S (S o) /\ nth_error doc (S o) = Some (Txt t)) \/
  (exists t1 t2, S (S o) < c /\ nth_error doc (S o) = Some (Txt t1) /\
                 nth_error doc (c - 1) = Some (Txt t2) /\ 2 <= nlcount t1 /\ 2 <= nlcount t2).

Lemma strict_wrap f n : strict f -> In n (ast_nodes 0 f) -> is_unwrap (node_b1 n) = true ->
  wrap_ok (doc_of f) n.
Proof.
  intros Hs Hn U. pose proof (proj2 strict_nodes_both f Hs 0 n Hn) as H.
  destruct n as [[[b1 b2] o] c]. cbn [node_b1] in U. destruct (H U) as (i & j & -> & -> & K).
  unfold wrap_ok. cbn [node_open node_close Nat.add]. exact K.
Qed.

(* ------------------------------------------------------------------------- *)
(** * Part E: the ranges of the nodes of a strict tree *)

Lemma leb_item F it p j : mono F -> F it <= p < F (S it) -> (F j <=? p) = (j <=? it).
Proof.
  intros HF Hp. destruct (Nat.leb_spec j it) as [H|H].
  - pose proof (HF j it H). apply Nat.leb_le. lia.
  - pose proof (HF (S it) j ltac:(lia)). apply Nat.leb_gt. lia.
Qed.

Lemma ltb_item F it p j : mono F -> F it <= p < F (S it) -> (p <? F j) = (it <? j).
Proof.
  intros HF Hp. destruct (Nat.ltb_spec it j) as [H|H].
  - pose proof (HF (S it) j ltac:(lia)). apply Nat.ltb_lt. lia.
  - pose proof (HF j it H). apply Nat.ltb_ge. lia.
Qed.

Lemma txt_nl doc i t x : nth_error doc i = Some (Txt t) -> nth_error t x = Some NL ->
  nth_error (flat doc) (fstart doc i + x) = Some (B NL) /\ fstart doc i + x < fstart doc (S i).
Proof.
  intros Hi Hx. assert (x < length t) as L by (apply nth_error_Some; congruence).
  split.
  - rewrite (txt_sym doc i t x Hi L), Hx. reflexivity.
  - rewrite (fstart_S doc i _ Hi), flat_item_len. lia.
Qed.

Lemma txt_fstart doc i t : nth_error doc i = Some (Txt t) -> fstart doc (S i) = fstart doc i + length t.
Proof. intros H. rewrite (fstart_S doc i _ H), flat_item_len. reflexivity. Qed.

(** A non-empty range from the two finders. *)
Lemma a_unwrap_nonempty l sb se eb ee e s :
  a_ub_end l se = Some e -> a_ub_start l eb = Some s -> e <= s -> sb < se -> eb <= ee ->
  fst (fst (a_unwrap l sb se eb ee)) < snd (fst (a_unwrap l sb se eb ee)).
Proof.
  intros Ee Es L H1 H2. unfold a_unwrap. rewrite Ee, Es.
  apply a_ub_end_inv in Ee. destruct Ee as (p & P1 & P2 & _).
  apply a_ub_start_inv in Es. destruct Es as (q & Q1 & Q2 & _).
  destruct (Nat.ltb_spec e s) as [K|K]; cbn [fst snd]; [lia|].
  destruct (Nat.eqb_spec s e) as [K'|K']; cbn [fst snd]; lia.
Qed.

(** With at most two line breaks between the two tags the range is empty, whatever surrounds the
    element. *)
Lemma a_unwrap_empty l sb se eb ee :
  (forall x y z, se <= x -> x < y -> y < z -> z < eb ->
     nth_error l x = Some (B NL) -> nth_error l y = Some (B NL) -> nth_error l z = Some (B NL) -> False) ->
  a_unwrap l sb se eb ee = ((sb, sb), None).
Proof.
  intros H. destruct (a_unwrap_cases l sb se eb ee)
    as [E|[(e & E1 & E2 & _)|(e & s & E1 & E2 & L & _)]]; [exact E | exfalso..].
  - apply a_ub_end_inv in E1. destruct E1 as (p & P1 & P2 & _ & N1 & N2).
    apply a_ub_start_inv in E2. destruct E2 as (q & Q1 & Q2 & N3 & _).
    apply (H p e q); assumption || lia.
  - apply a_ub_end_inv in E1. destruct E1 as (p & P1 & P2 & _ & N1 & N2).
    apply a_ub_start_inv in E2. destruct E2 as (q & Q1 & Q2 & N3 & _).
    apply (H p e q); assumption || lia.
Qed.

Lemma node_tags f n : In n (ast_nodes 0 f) ->
  let doc := doc_of f in let F := fstart doc in
  node_open n < node_close n /\
  F (node_open n) < F (S (node_open n)) /\ F (node_close n) < F (S (node_close n)) /\
  (exists b1, nth_error doc (node_open n) = Some (Tag b1)) /\
  (exists b2, nth_error doc (node_close n) = Some (Tag b2)).
Proof.
  intros Hn. cbv zeta. destruct (ast_tag_strict f n Hn) as [S1 S2].
  pose proof (ast_nodes_at f 0 n Hn) as Ha. destruct n as [[[b1 b2] o] c].
  destruct Ha as (i & j & -> & -> & L & Hi & Hj). cbn [node_open node_close Nat.add] in *.
  repeat split; try assumption; eexists; eassumption.
Qed.

(** The two parts of an unwrapped node of a strict tree stay inside its own tags and its first
    and last text child; they begin / end at line breaks. *)
Lemma strict_parts cfg f n e s cl : strict f -> In n (ast_nodes 0 f) ->
  node_rr cfg (doc_of f) n = Some ((fstart (doc_of f) (node_open n), e), Some (s, cl)) ->
  let doc := doc_of f in let F := fstart doc in let o := node_open n in let c := node_close n in
  cl = F (S c) /\ F (S o) <= e /\ e < F (S (S o)) /\ F (c - 1) < s /\ s < F c /\ S o <= c - 1 /\
  (exists t1, nth_error doc (S o) = Some (Txt t1)) /\
  (exists t2, nth_error doc (c - 1) = Some (Txt t2)) /\
  nth_error (flat doc) e = Some (B NL) /\ nth_error (flat doc) (s - 1) = Some (B NL) /\ 1 <= s.
Proof.
  intros Hs Hn E. cbv zeta.
  pose proof (node_rr_shape cfg (doc_of f) n _ E) as Sh. cbv zeta in Sh.
  destruct Sh as [[Sh _]|(e' & s' & Sh & L1 & L2 & U & Ee & Es)]; [discriminate Sh|].
  inversion Sh; subst e' s cl. clear Sh.
  pose proof (strict_wrap f n Hs Hn U) as W. unfold wrap_ok in W.
  set (doc := doc_of f) in *. set (F := fstart doc) in *. set (l := flat doc) in *.
  set (o := node_open n) in *. set (c := node_close n) in *.
  pose proof (fstart_mono doc) as HF. fold F in HF.
  pose proof (a_ub_end_inv l _ _ Ee) as (p & P1 & P2 & _ & _ & Ne).
  pose proof (a_ub_start_inv l _ _ Es) as (q & Q1 & Q2 & _ & Ns).
  replace (S s' - 1) with s' by lia.
  destruct W as [(t & Ec & Ht)|(t1 & t2 & Lc & H1 & H2 & C1 & C2)].
  - fold o c in Ec. fold o in Ht. rewrite Ec in *. replace (S (S o) - 1) with (S o) by lia.
    repeat split; try lia; try assumption; exists t; exact Ht.
  - fold o c in Lc. fold o in H1. fold c in H2.
    destruct (nl_two t1 C1) as (x1 & x2 & Lx & X1 & X2).
    destruct (nl_two t2 C2) as (y1 & y2 & Ly & Y1 & Y2).
    destruct (txt_nl doc _ _ _ H1 X1) as [A1 _]. destruct (txt_nl doc _ _ _ H1 X2) as [A2 A2'].
    destruct (txt_nl doc _ _ _ H2 Y1) as [B1 _]. destruct (txt_nl doc _ _ _ H2 Y2) as [B2 B2'].
    replace (S (c - 1)) with c in B2' by lia. fold F in A1, A2, A2', B1, B2, B2'. fold l in A1, A2, B1, B2.
    destruct (ub_end_le l (F (S o)) (F (S o) + x1) (F (S o) + x2) ltac:(lia) ltac:(lia) A1 A2) as (e1 & Ee1 & _ & Le1).
    rewrite Ee in Ee1. inversion Ee1; subst e1.
    destruct (ub_start_ge l (F c) (F (c - 1) + y1) (F (c - 1) + y2) ltac:(lia) ltac:(lia)
                (fstart_le doc c) B1 B2) as (s1 & Es1 & Ls1 & _).
    rewrite Es in Es1. inversion Es1; subst s1.
    repeat split; try lia; try assumption; [exists t1; exact H1 | exists t2; exact H2].
Qed.

(** ** The mask on tags and on texts *)

(** What a node contributes on the symbols of tag item [it]. *)
Definition tagdel (cfg : config) (doc : list item) (n : node) (it : nat) : bool :=
  match node_rr cfg doc n with
  | None => false
  | Some (_, None) => node_hasb n it
  | Some (_, Some _) => (it =? node_open n) || (it =? node_close n)
  end.

Lemma rr_hasb_span a b p : rr_hasb ((a, b), None) p = (a <=? p) && (p <? b).
Proof. unfold rr_hasb, rr_ranges, in_rangesb, in_rangeb. cbn [fst snd existsb]. apply orb_false_r. Qed.

Lemma rr_hasb_parts a b c d p :
  rr_hasb ((a, b), Some (c, d)) p = ((a <=? p) && (p <? b)) || ((c <=? p) && (p <? d)).
Proof.
  unfold rr_hasb, rr_ranges, in_rangesb, in_rangeb. cbn [fst snd existsb]. rewrite orb_false_r.
  reflexivity.
Qed.

Lemma node_rr_fst cfg doc n a b cl : node_rr cfg doc n = Some ((a, b), cl) ->
  a = fstart doc (node_open n) /\ (cl = None -> b = fstart doc (S (node_close n))).
Proof.
  intros E. pose proof (node_rr_shape cfg doc n _ E) as Sh. cbv zeta in Sh.
  destruct Sh as [[Sh _]|(e & s & Sh & _)]; inversion Sh; subst; split; try reflexivity.
  intros H. discriminate H.
Qed.

Lemma node_del_tag cfg f n it b p : strict f -> In n (ast_nodes 0 f) ->
  nth_error (doc_of f) it = Some (Tag b) ->
  fstart (doc_of f) it <= p < fstart (doc_of f) (S it) ->
  node_del cfg (doc_of f) n p = tagdel cfg (doc_of f) n it.
Proof.
  intros Hs Hn Hit Hp. unfold node_del, tagdel.
  pose proof (fstart_mono (doc_of f)) as HF.
  destruct (node_rr cfg (doc_of f) n) as [[[a e] [[s cl]|]]|] eqn:E; [| |reflexivity].
  - destruct (node_rr_fst _ _ _ _ _ _ E) as [-> _].
    pose proof (strict_parts cfg f n e s cl Hs Hn E) as K. cbv zeta in K.
    destruct K as (-> & K1 & K2 & K3 & K4 & K5 & (t1 & T1) & (t2 & T2) & _).
    set (doc := doc_of f) in *. set (F := fstart doc) in *.
    set (o := node_open n) in *. set (c := node_close n) in *.
    rewrite rr_hasb_parts.
    rewrite (leb_item F it p o HF Hp), (ltb_item F it p (S c) HF Hp).
    assert (it <> S o) as N1 by (intros ->; congruence).
    assert (it <> c - 1) as N2 by (intros ->; congruence).
    assert ((p <? e) = (it <=? o)) as ->.
    { destruct (Nat.leb_spec it o) as [H|H].
      - pose proof (HF (S it) (S o) ltac:(lia)). apply Nat.ltb_lt. lia.
      - pose proof (HF (S (S o)) it ltac:(lia)). apply Nat.ltb_ge. lia. }
    assert ((s <=? p) = (c <=? it)) as ->.
    { destruct (Nat.leb_spec c it) as [H|H].
      - pose proof (HF c it H). apply Nat.leb_le. lia.
      - pose proof (HF (S it) (c - 1) ltac:(lia)). apply Nat.leb_gt. lia. }
    destruct (Nat.leb_spec o it), (Nat.leb_spec it o), (Nat.leb_spec c it), (Nat.ltb_spec it (S c)),
      (Nat.eqb_spec it o), (Nat.eqb_spec it c); cbn [andb orb]; try reflexivity; lia.
  - destruct (node_rr_fst _ _ _ _ _ _ E) as [-> Eb]. rewrite (Eb eq_refl), rr_hasb_span.
    apply (span_hasb_item (fstart (doc_of f)) n it p HF Hp).
Qed.

Lemma node_del_txt cfg f n it t p : strict f -> In n (ast_nodes 0 f) ->
  nth_error (doc_of f) it = Some (Txt t) ->
  fstart (doc_of f) it <= p -> S p < fstart (doc_of f) (S it) ->
  node_del cfg (doc_of f) n p <> node_del cfg (doc_of f) n (S p) ->
  nth_error (flat (doc_of f)) p = Some (B NL) \/ nth_error (flat (doc_of f)) (S p) = Some (B NL).
Proof.
  intros Hs Hn Hit Hp1 Hp2. unfold node_del.
  pose proof (fstart_mono (doc_of f)) as HF.
  destruct (node_rr cfg (doc_of f) n) as [[[a e] [[s cl]|]]|] eqn:E; [| |intros H; exfalso; apply H; reflexivity].
  - destruct (node_rr_fst _ _ _ _ _ _ E) as [-> _].
    pose proof (strict_parts cfg f n e s cl Hs Hn E) as K. cbv zeta in K.
    destruct K as (-> & _ & _ & _ & _ & _ & _ & _ & Ne & Ns & L1).
    set (doc := doc_of f) in *. set (F := fstart doc) in *.
    set (o := node_open n) in *. set (c := node_close n) in *.
    rewrite !rr_hasb_parts.
    rewrite (leb_item F it p o HF ltac:(lia)), (ltb_item F it p (S c) HF ltac:(lia)).
    rewrite (leb_item F it (S p) o HF ltac:(lia)), (ltb_item F it (S p) (S c) HF ltac:(lia)).
    intros H. destruct (Nat.eq_dec (S p) e) as [->|N1]; [right; exact Ne|].
    destruct (Nat.eq_dec p (s - 1)) as [->|N2]; [left; exact Ns|].
    exfalso. apply H.
    assert ((p <? e) = (S p <? e)) as ->.
    { destruct (Nat.ltb_spec p e), (Nat.ltb_spec (S p) e); try reflexivity; lia. }
    assert ((s <=? p) = (s <=? S p)) as ->.
    { destruct (Nat.leb_spec s p), (Nat.leb_spec s (S p)); try reflexivity; lia. }
    reflexivity.
  - destruct (node_rr_fst _ _ _ _ _ _ E) as [-> Eb]. rewrite (Eb eq_refl), !rr_hasb_span.
    intros H. exfalso. apply H.
    pose proof (span_hasb_item (fstart (doc_of f)) n it p HF ltac:(lia)) as E1.
    pose proof (span_hasb_item (fstart (doc_of f)) n it (S p) HF ltac:(lia)) as E2.
    unfold span_hasb in E1, E2. rewrite E1, E2. reflexivity.
Qed.

Lemma existsb_diff {A} (g h : A -> bool) l : existsb g l <> existsb h l ->
  exists x, In x l /\ g x <> h x.
Proof.
  induction l as [|x l IH]; intros H; [exfalso; apply H; reflexivity|].
  cbn [existsb] in H. destruct (Bool.bool_dec (g x) (h x)) as [E|E].
  - destruct IH as (y & Hy & Hd).
    + intros E'. apply H. rewrite E, E'. reflexivity.
    + exists y. split; [right; exact Hy | exact Hd].
  - exists x. split; [left; reflexivity | exact E].
Qed.

(** Inside a text the mask changes only next to a line break. *)
Theorem del1u_txt_change cfg f it t p : strict f ->
  nth_error (doc_of f) it = Some (Txt t) ->
  fstart (doc_of f) it <= p -> S p < fstart (doc_of f) (S it) ->
  del1u cfg f p <> del1u cfg f (S p) ->
  nth_error (flat (doc_of f)) p = Some (B NL) \/ nth_error (flat (doc_of f)) (S p) = Some (B NL).
Proof.
  intros Hs Hit H1 H2 Hd. unfold del1u in Hd. apply existsb_diff in Hd.
  destruct Hd as (n & Hn & Hd). apply (node_del_txt cfg f n it t p Hs Hn Hit H1 H2 Hd).
Qed.

(** The mask on the symbols of a tag. *)
Definition tdel (cfg : config) (f : list ast) (it : nat) : bool :=
  existsb (fun n => tagdel cfg (doc_of f) n it) (ast_nodes 0 f).

Theorem del1u_tag cfg f it b p : strict f -> nth_error (doc_of f) it = Some (Tag b) ->
  fstart (doc_of f) it <= p < fstart (doc_of f) (S it) -> del1u cfg f p = tdel cfg f it.
Proof.
  intros Hs Hit Hp. unfold del1u, tdel. apply existsb_ext_in. intros n Hn.
  apply (node_del_tag cfg f n it b p Hs Hn Hit Hp).
Qed.

Lemma tag_start_in doc it b : nth_error doc it = Some (Tag b) ->
  fstart doc it <= fstart doc it < fstart doc (S it).
Proof. intros H. rewrite (AstCollect.fstart_tag doc it b H). lia. Qed.

(** The two tags of a node are deleted together or kept together. *)
Theorem tdel_node cfg f n : In n (ast_nodes 0 f) ->
  tdel cfg f (node_open n) = tdel cfg f (node_close n).
Proof.
  intros Hn. unfold tdel. apply existsb_ext_in. intros m Hm. unfold tagdel.
  pose proof (ast_nodes_range f 0 n Hn) as (_ & Rn & _).
  pose proof (ast_nodes_range f 0 m Hm) as (_ & Rm & _).
  pose proof (ast_nodes_laminar f 0 n m Hn Hm) as L.
  destruct (node_rr cfg (doc_of f) m) as [[r [cl|]]|]; [| |reflexivity].
  - unfold laminar in L.
    destruct (Nat.eqb_spec (node_open n) (node_open m)), (Nat.eqb_spec (node_open n) (node_close m)),
      (Nat.eqb_spec (node_close n) (node_open m)), (Nat.eqb_spec (node_close n) (node_close m));
      cbn [orb]; try reflexivity; lia.
  - apply node_hasb_laminar; assumption.
Qed.

(** A node whose opening tag is kept has no range. *)
Theorem tdel_open_kept cfg f n : In n (ast_nodes 0 f) ->
  tdel cfg f (node_open n) = false -> node_rr cfg (doc_of f) n = None.
Proof.
  intros Hn H. unfold tdel in H.
  assert (tagdel cfg (doc_of f) n (node_open n) = false) as K.
  { destruct (tagdel cfg (doc_of f) n (node_open n)) eqn:E; [|reflexivity].
    assert (existsb (fun n0 => tagdel cfg (doc_of f) n0 (node_open n)) (ast_nodes 0 f) = true) as K.
    { apply existsb_exists. exists n. split; assumption. }
    rewrite K in H. discriminate H. }
  unfold tagdel in K. pose proof (ast_nodes_range f 0 n Hn) as (_ & Rn & _).
  destruct (node_rr cfg (doc_of f) n) as [[r [cl|]]|]; [| |reflexivity]; exfalso.
  - rewrite Nat.eqb_refl in K. discriminate K.
  - unfold node_hasb in K. rewrite Nat.leb_refl in K. cbn [andb] in K. apply Nat.leb_gt in K. lia.
Qed.

(** ** The nodes without a range *)

(** A node that is not ready, or a ready unwrap-block with one text child with at most two line
    breaks. *)
Definition settled_node (cfg : config) (doc : list item) (n : node) : Prop :=
  ~ ready cfg n \/
  (is_unwrap (node_b1 n) = true /\
   exists t, node_close n = S (S (node_open n)) /\ nth_error doc (S (node_open n)) = Some (Txt t) /\
             nlcount t <= 2).

Theorem strict_none cfg f n : strict f -> In n (ast_nodes 0 f) ->
  node_rr cfg (doc_of f) n = None -> settled_node cfg (doc_of f) n.
Proof.
  intros Hs Hn E. destruct (node_rr_none cfg (doc_of f) n E) as [R|[R Hemp]]; [left; exact R|].
  right. pose proof (node_tags f n Hn) as K. cbv zeta in K.
  destruct K as (Loc & So & Sc & _ & _).
  set (doc := doc_of f) in *. set (F := fstart doc) in *. set (l := flat doc) in *.
  set (o := node_open n) in *. set (c := node_close n) in *.
  pose proof (fstart_mono doc) as HF. fold F in HF.
  unfold a_create in Hemp. fold (is_unwrap (node_b1 n)) in Hemp.
  destruct (is_unwrap (node_b1 n)) eqn:U.
  - split; [reflexivity|]. pose proof (strict_wrap f n Hs Hn U) as W. unfold wrap_ok in W.
    fold doc o c in W. fold F l in Hemp.
    destruct W as [(t & Ec & Ht)|(t1 & t2 & Lc & H1 & H2 & C1 & C2)].
    + exists t. split; [exact Ec|]. split; [exact Ht|].
      destruct (le_lt_dec (nlcount t) 2) as [L|L]; [exact L | exfalso].
      destruct (nl_three t L) as (x1 & x2 & x3 & L1 & L2 & X1 & X2 & X3).
      destruct (txt_nl doc _ _ _ Ht X1) as [A1 _]. destruct (txt_nl doc _ _ _ Ht X2) as [A2 _].
      destruct (txt_nl doc _ _ _ Ht X3) as [A3 A3']. fold F in A1, A2, A3, A3'. fold l in A1, A2, A3.
      rewrite <- Ec in A3'.
      destruct (ub_end_le l (F (S o)) (F (S o) + x1) (F (S o) + x2) ltac:(lia) ltac:(lia) A1 A2)
        as (e & Ee & _ & Le).
      destruct (ub_start_ge l (F c) (F (S o) + x2) (F (S o) + x3) ltac:(lia) ltac:(lia)
                  (fstart_le doc c) A2 A3) as (s & Es & Ls & _).
      pose proof (HF c (S c) ltac:(lia)).
      pose proof (a_unwrap_nonempty l (F o) (F (S o)) (F c) (F (S c)) e s Ee Es ltac:(lia) So ltac:(lia)).
      lia.
    + exfalso.
      destruct (nl_two t1 C1) as (x1 & x2 & Lx & X1 & X2).
      destruct (nl_two t2 C2) as (y1 & y2 & Ly & Y1 & Y2).
      destruct (txt_nl doc _ _ _ H1 X1) as [A1 _]. destruct (txt_nl doc _ _ _ H1 X2) as [A2 A2'].
      destruct (txt_nl doc _ _ _ H2 Y1) as [B1 _]. destruct (txt_nl doc _ _ _ H2 Y2) as [B2 B2'].
      replace (S (c - 1)) with c in B2' by lia. fold F in A1, A2, A2', B1, B2, B2'. fold l in A1, A2, B1, B2.
      destruct (ub_end_le l (F (S o)) (F (S o) + x1) (F (S o) + x2) ltac:(lia) ltac:(lia) A1 A2)
        as (e & Ee & _ & Le).
      destruct (ub_start_ge l (F c) (F (c - 1) + y1) (F (c - 1) + y2) ltac:(lia) ltac:(lia)
                  (fstart_le doc c) B1 B2) as (s & Es & Ls & _).
      pose proof (HF c (S c) ltac:(lia)). pose proof (HF (S (S o)) (c - 1) ltac:(lia)).
      pose proof (a_unwrap_nonempty l (F o) (F (S o)) (F c) (F (S c)) e s Ee Es ltac:(lia) So ltac:(lia)).
      lia.
  - exfalso. cbn [fst snd] in Hemp. fold F in Hemp. pose proof (HF (S o) (S c) ltac:(lia)). lia.
Qed.

(* ------------------------------------------------------------------------- *)
(** * Part F: one run of [clean] on a rendering, with pairs *)

(** The run: the whitespace ranges [aR] over the residual symbol list [l'] exist; every deleted
    symbol is a whitespace byte; and every deleted symbol is (i) linked to a seam by whitespace
    bytes only, or (ii) lies within the leading blanks of its line. *)
Theorem clean_rendered_pairs : forall cfg ds de doc ams,
  good_delims ds de -> de_nb de -> good_doc ds de doc -> bodies_ok doc ->
  merge_markers (fst (a_collect cfg doc false)) = Ok ams ->
  exists aR,
    a_format_ranges (sdelete (map fst ams) (flat doc)) (a_removed_pos ams) = Ok aR /\
    clean cfg ds de (render ds de doc) =
      Ok (rs ds de (sdelete aR (sdelete (map fst ams) (flat doc)))) /\
    (forall k c, in_ranges aR k -> nth_error (sdelete (map fst ams) (flat doc)) k = Some (B c) ->
                 is_ws c = true) /\
    (forall k, in_ranges aR k -> k < length (sdelete (map fst ams) (flat doc)) ->
       let l' := sdelete (map fst ams) (flat doc) in
       (exists m, In m ams /\
         let jm := sindex (map fst ams) (fst (fst m)) in
         jm <= length l' /\
         forall j b, ((pos ds de l' k <= j /\ j < pos ds de l' jm) \/
                      (pos ds de l' jm <= j /\ j <= pos ds de l' k)) ->
                     nth_error (rs ds de l') j = Some b -> is_ws b = true) \/
       (exists ls, is_line_start (rs ds de l') ls /\ ls <= pos ds de l' k /\
         forall j b, ls <= j -> j <= pos ds de l' k ->
                     nth_error (rs ds de l') j = Some b -> is_blank b = true)).
Proof.
  intros cfg ds de doc ams Hgd Hnb Hdoc Hbod Eams.
  pose proof (good_delims_sp_ok ds de Hgd) as Hsp.
  destruct (good_delims_ne ds de Hgd) as [Nds Nde].
  pose proof Hgd as (_ & _ & Wds & Wde & _).
  pose proof (render_wf ds de doc Hgd Hdoc) as Hs.
  destruct (collect_rendered cfg ds de doc false Hgd Hdoc Hbod) as (parts & Hf & Ec & _).
  destruct (markers_spec cfg ds de _ parts Hs Wds Wde Nds Nde Hf)
    as (ms & Em & Hsnf & Hbd & Hob & Hpc & _).
  pose proof (sorted_nonempty_sorted 0 _ Hsnf) as Hsorted.
  set (l := flat doc) in *.
  set (F := fst (a_collect cfg doc false)) in *.
  pose proof (pos_mono_on ds de l Nds Nde) as Hmono.
  assert (Forall (rtree_le (length l)) F) as HF.
  { apply forest_positions_le. apply (proj1 (a_collect_bound cfg doc false)). }
  pose proof Em as Em0.
  unfold markers_of in Em0. rewrite Hf in Em0. cbn [bind] in Em0.
  unfold build_remove_marker in Em0.
  rewrite Ec, (merge_markers_mono _ _ F Hmono HF), Eams in Em0.
  inversion Em0 as [Ems]. clear Em0.
  pose proof (merge_markers_le _ F ams HF Eams) as Hle.
  set (R := map fst ams).
  set (l' := sdelete R l).
  assert (map fst ms = map (map_range (pos ds de l)) R) as EfR.
  { rewrite <- Ems. apply map_fst_map_marker. }
  assert (render ds de doc = rs ds de l) as Es by (symmetry; apply rs_flat).
  set (P1 := in_rangesb (map fst ms)).
  set (removed := delete_ranges (map fst ms) (render ds de doc)).
  set (rpos := map (fun m : marker => (rank P1 (fst (fst m)), snd m)) ms).
  assert (Hwr : wf_utf8 removed = true) by (apply delete_ranges_wf; assumption).
  assert (Hp1 : forall p pi, In (p, pi) rpos -> p <= length removed /\ is_boundary removed p = true).
  { intros p pi Hin. unfold rpos in Hin. apply in_map_iff in Hin.
    destruct Hin as (m & Em' & Hm). inversion Em'; subst p pi.
    assert (Hr : In (fst m) (map fst ms)) by (apply in_map; exact Hm).
    destruct (Hob _ Hr) as [Ha _].
    pose proof (boundary_le _ _ Ha) as Hle'.
    split.
    - unfold removed, delete_ranges. rewrite delete_where_length. apply rank_monotone. exact Hle'.
    - apply delete_ranges_boundary; assumption. }
  assert (Hp2 : forall p pi, In (p, Some pi) rpos -> pi < length rpos).
  { intros p pi Hin. unfold rpos in *. rewrite map_length. apply in_map_iff in Hin.
    destruct Hin as (m & Em' & Hm). inversion Em' as [[E1 E2]].
    apply In_nth_error in Hm. destruct Hm as [k Hk].
    destruct m as [r o]. cbn [snd] in E2. subst o.
    destruct (Hpc k r pi Hk) as [_ (r' & Hn)].
    apply nth_error_Some. congruence. }
  destruct (format_spec removed rpos Hwr Hp1 Hp2) as (rs0 & Efr & _ & _ & _ & Hws & Efmt & _).
  assert (removed = rs ds de l') as Erem.
  { unfold removed. rewrite EfR, Es. apply rs_sdelete_gen. }
  assert (rpos = map (map_pp (pos ds de l')) (a_removed_pos ams)) as Erpos.
  { unfold rpos, a_removed_pos, P1. rewrite EfR, <- Ems. rewrite !map_map. apply map_ext. intros m.
    unfold map_pp, map_marker. cbn [fst snd]. rewrite fst_map_range.
    fold R. rewrite pos_sdelete_gen. reflexivity. }
  assert (forall p, In p (a_removed_pos ams) -> fst p <= length l') as Hapos.
  { intros p Hin. unfold a_removed_pos in Hin. apply in_map_iff in Hin.
    destruct Hin as (m & <- & Hm). cbn [fst]. fold R. apply sindex_le.
    rewrite Forall_forall in Hle. apply (Hle m Hm). }
  assert (head_ok l') as Hh' by (apply (wf_head_ok ds de); rewrite <- Erem; exact Hwr).
  assert (nb_ok de l') as Hnb' by (left; exact Hnb).
  pose proof (format_ranges_flat ds de l' (a_removed_pos ams) Hsp Hnb' Hh' Hapos) as Eflat.
  rewrite <- Erem, <- Erpos, Efr in Eflat.
  destruct (a_format_ranges l' (a_removed_pos ams)) as [aR|] eqn:EaR; [|discriminate Eflat].
  inversion Eflat as [Ers0]. clear Eflat.
  exists aR. split; [reflexivity|]. split; [|split].
  - unfold clean. rewrite Em. cbn [bind].
    rewrite (remove_markers_ok _ ms Hsorted Hbd Hob Hs). cbn [bind].
    rewrite (get_removed_pos_ok ms Hsorted). cbn [bind].
    rewrite (removed_positions_rank ms Hsorted).
    change (format removed rpos = Ok (rs ds de (sdelete aR l'))). rewrite Efmt. f_equal.
    rewrite Ers0, Erem. apply rs_sdelete_gen.
  - intros k c Hk Hn.
    assert (k < length l') as Hkl by (apply nth_error_Some; congruence).
    destruct (pos_byte ds de l' k c Hn) as [Hb HS].
    destruct (in_ranges_map_pos ds de l' aR k (conj Nds Nde) Hkl Hk (pos ds de l' k) ltac:(lia))
      as (r & Hr & Hi).
    rewrite <- Ers0 in Hr. apply (Hws r _ c Hr Hi). rewrite Erem. exact Hb.
  - intros k Hk Hkl. cbv zeta.
    pose proof (pos_S_lt ds de l' k (conj Nds Nde) Hkl) as Hlt.
    destruct (in_ranges_map_pos ds de l' aR k (conj Nds Nde) Hkl Hk (pos ds de l' k) ltac:(lia))
      as (r & Hr & Hi).
    rewrite <- Ers0 in Hr.
    destruct (format_confined removed rpos rs0 Hwr Hp1 Hp2 Efr (pos ds de l' k)
                (ex_intro _ r (conj Hr Hi)))
      as [(p & pi & Hp & Hc)|(p & pi & q & qi & ls & _ & _ & _ & _ & Hls & Hle1 & Hbl)].
    + left. rewrite Erpos in Hp. apply in_map_iff in Hp. destruct Hp as ([jm pj] & Ep & Hin).
      unfold map_pp in Ep. cbn [fst snd] in Ep. inversion Ep; subst p pi.
      pose proof (Hapos _ Hin) as Hjl. cbn [fst] in Hjl.
      unfold a_removed_pos in Hin. apply in_map_iff in Hin. destruct Hin as (m & Em' & Hm).
      inversion Em'; subst jm pj.
      exists m. split; [exact Hm|]. fold R. fold l'. split; [exact Hjl|].
      intros j b Hj Hn. apply (Hc j b); [exact Hj|]. rewrite Erem. exact Hn.
    + right. exists ls. rewrite Erem in Hls, Hbl. split; [exact Hls|]. split; [exact Hle1|].
      exact Hbl.
Qed.

(* ------------------------------------------------------------------------- *)
(** * Part G: the whitespace ranges never reach into a kept tag *)

Lemma blank_is_ws c : is_blank c = true -> is_ws c = true.
Proof. unfold is_blank, is_ws. intros H. rewrite H. reflexivity. Qed.

(** (ii) A symbol of a tag whose body has no line break does not lie within the leading blanks of
    its line: the tag is on one line and its first byte is not a blank. *)
Lemma tag_no_blank_line ds de l' u b k ls :
  sp_ok ds de -> nth_error l' u = Some DS ->
  (forall q c, nth_error b q = Some c -> nth_error l' (S u + q) = Some (B c)) ->
  ~ In NL b -> u <= k <= S u + length b ->
  is_line_start (rs ds de l') ls -> ls <= pos ds de l' k ->
  (forall j c, ls <= j -> j <= pos ds de l' k -> nth_error (rs ds de l') j = Some c ->
               is_blank c = true) -> False.
Proof.
  intros [Hds _] Hu Hb Hnl Hk Hls Hle Hbl.
  destruct (ds_run ds de l' u Hds Hu) as (d0 & Hd0 & _ & Hw & Hrun & HS & _).
  assert (brun l' (S u) (S u + length b)) as Hbr.
  { intros i H1 H2. destruct (nth_error b (i - S u)) as [c|] eqn:E.
    - exists c. rewrite <- (Hb _ _ E). f_equal. lia.
    - apply nth_error_None in E. lia. }
  pose proof (pos_mono ds de l' u k ltac:(lia)) as M1.
  pose proof (pos_mono ds de l' k (S u + length b) ltac:(lia)) as M2.
  rewrite (pos_brun_add ds de l' (S u) (S u + length b) (length b) Hbr (le_n _)) in M2.
  assert (forall x, pos ds de l' u <= x -> x < pos ds de l' u + length ds + length b ->
                    nth_error (rs ds de l') x <> Some NL) as Hno.
  { intros x X1 X2. destruct (Nat.lt_ge_cases (x - pos ds de l' u) (length ds)) as [L|L].
    - destruct (Hrun _ L) as (y & Hy & Ny). replace (pos ds de l' u + (x - pos ds de l' u)) with x in Hy by lia.
      rewrite Hy. intros E. inversion E. contradiction.
    - set (q := x - pos ds de l' u - length ds).
      destruct (nth_error b q) as [c|] eqn:E; [|apply nth_error_None in E; unfold q in E; lia].
      pose proof (Hb q c E) as Hq. destruct (pos_byte ds de l' _ c Hq) as [Hby _].
      assert (q < length b) as Lq by (apply nth_error_Some; congruence).
      rewrite (pos_brun_add ds de l' (S u) (S u + length b) q Hbr) in Hby by lia.
      replace (pos ds de l' (S u) + q) with x in Hby by (unfold q; lia).
      rewrite Hby. intros E'. inversion E'; subst c. apply Hnl. apply (nth_error_In _ _ E). }
  destruct (Nat.le_gt_cases ls (pos ds de l' u)) as [L|L].
  - pose proof (Hbl _ d0 L M1 Hd0) as Hb0. apply blank_is_ws in Hb0. rewrite Hb0 in Hw. discriminate Hw.
  - destruct Hls as [->|(p0 & -> & Hp0)]; [lia|].
    apply (Hno p0); [lia | lia | exact Hp0].
Qed.

(** (i) A symbol cannot be linked by whitespace bytes to a seam on the other side of a start or an
    end delimiter. *)
Lemma seam_not_across ds de l' k u v jm :
  sp_ok ds de -> nth_error l' u = Some DS -> nth_error l' v = Some DE ->
  (jm <= u /\ u <= k) \/ (k <= v /\ v < jm) ->
  (forall j b, ((pos ds de l' k <= j /\ j < pos ds de l' jm) \/
                (pos ds de l' jm <= j /\ j <= pos ds de l' k)) ->
               nth_error (rs ds de l') j = Some b -> is_ws b = true) -> False.
Proof.
  intros [Hds Hde] Hu Hv Hjm H. destruct Hjm as [[H1 H2]|[H1 H2]].
  - destruct (ds_run ds de l' u Hds Hu) as (d0 & Hn & _ & Hw & _).
    rewrite (H (pos ds de l' u) d0) in Hw; [discriminate Hw | | exact Hn].
    right. split; apply pos_mono; lia.
  - destruct (de_run ds de l' v Hde Hv) as (n & lead & m & Hlen & Hn & _ & Hw & _ & _ & HS & _).
    rewrite (H (pos ds de l' v + n) lead) in Hw; [discriminate Hw | | exact Hn].
    left. pose proof (pos_mono ds de l' k v ltac:(lia)).
    pose proof (pos_mono ds de l' (S v) jm ltac:(lia)). lia.
Qed.

(** The alternatives (i) and (ii) for a deleted symbol [k] of the residual list. *)
Definition confined (ds de : str) (ams : list marker) (l' : list sym) (k : nat) : Prop :=
  (exists m, In m ams /\
     let jm := sindex (map fst ams) (fst (fst m)) in
     jm <= length l' /\
     forall j b, ((pos ds de l' k <= j /\ j < pos ds de l' jm) \/
                  (pos ds de l' jm <= j /\ j <= pos ds de l' k)) ->
                 nth_error (rs ds de l') j = Some b -> is_ws b = true) \/
  (exists ls, is_line_start (rs ds de l') ls /\ ls <= pos ds de l' k /\
     forall j b, ls <= j -> j <= pos ds de l' k ->
                 nth_error (rs ds de l') j = Some b -> is_blank b = true).

Lemma kept_tag_untouched_u ds de doc (ams : list marker) aR :
  sp_ok ds de ->
  sorted_nonempty_from 0 (map fst ams) ->
  (forall k, in_ranges aR k -> k < length (sdelete (map fst ams) (flat doc)) ->
     confined ds de ams (sdelete (map fst ams) (flat doc)) k) ->
  forall it b, nth_error doc it = Some (Tag b) -> ~ In NL b ->
  (forall q, fstart doc it <= q < fstart doc (S it) -> in_rangesb (map fst ams) q = false) ->
  forall j, fstart doc it <= j < fstart doc (S it) ->
  in_rangesb aR (sindex (map fst ams) j) = false.
Proof.
  intros Hsp S1 Hconf it b Hit Hnl Hc0 j Hj.
  set (R := map fst ams) in *. set (P1 := in_rangesb R) in *.
  set (l := flat doc) in *. set (l' := sdelete R l) in *. set (s := fstart doc it) in *.
  pose proof (AstCollect.fstart_tag doc it b Hit) as HS. fold s in HS.
  assert (forall q, s <= q < s + (length b + 2) -> P1 q = false) as Hconst.
  { intros q Hq. apply Hc0. lia. }
  destruct (in_rangesb aR (sindex R j)) eqn:E; [exfalso | reflexivity].
  apply in_rangesb_spec in E. unfold sindex in E. fold P1 in E.
  set (u := rank P1 s) in *.
  assert (rank P1 j = u + (j - s)) as Ek.
  { replace j with (s + (j - s)) at 1 by lia. apply (rank_kept_run P1 s _ Hconst). lia. }
  assert (rank P1 (s + (length b + 2)) = u + (length b + 2)) as Ee.
  { apply (rank_kept_run P1 s _ Hconst). lia. }
  assert (nth_error l' u = Some DS) as Hu.
  { unfold l', sdelete, u. fold P1. rewrite (nth_sdel P1 l s) by (apply Hconst; lia).
    apply (sym_at_tag doc it b Hit). }
  assert (forall q, q <= length b -> nth_error l' (S u + q) =
            if q <? length b then option_map B (nth_error b q) else Some DE) as Hbody.
  { intros q Hq. replace (S u + q) with (rank P1 (s + (1 + q))).
    - unfold l', sdelete. fold P1. rewrite (nth_sdel P1 l) by (apply Hconst; lia).
      pose proof (sym_at_body doc it q b Hit Hq) as Hb. cbn [aidx] in Hb. fold s in Hb.
      replace (s + (1 + q)) with (s + 1 + q) by lia. exact Hb.
    - rewrite (rank_kept_run P1 s _ Hconst) by lia. lia. }
  assert (nth_error l' (u + (length b + 1)) = Some DE) as Hv.
  { replace (u + (length b + 1)) with (S u + length b) by lia. rewrite (Hbody _ (le_n _)).
    rewrite Nat.ltb_irrefl. reflexivity. }
  assert (u + (length b + 1) < length l') as Hvl by (apply nth_error_Some; congruence).
  rewrite Ek in E.
  destruct (Hconf (u + (j - s)) E ltac:(lia)) as [(m & Hm & Hjl & Hws)|(ls & Hls & Hle & Hbl)].
  - cbv zeta in Hjl, Hws. fold R in Hjl, Hws. unfold sindex in Hjl, Hws. fold P1 in Hjl, Hws.
    assert (In (fst m) R) as HmR by (apply in_map; exact Hm).
    pose proof (snf_In_lt R 0 (fst m) S1 HmR) as Hab.
    assert (P1 (fst (fst m)) = true) as Ha.
    { apply in_rangesb_spec. exists (fst m). split; [exact HmR|]. unfold Ranges.in_range. lia. }
    apply (seam_not_across ds de l' (u + (j - s)) u (u + (length b + 1)) (rank P1 (fst (fst m)))
             Hsp Hu Hv); [|exact Hws].
    destruct (Nat.lt_ge_cases (fst (fst m)) s) as [L|L].
    + left. split; [apply rank_monotone; lia | lia].
    + right. destruct (Nat.lt_ge_cases (fst (fst m)) (s + (length b + 2))) as [L2|L2].
      * rewrite (Hconst (fst (fst m))) in Ha by lia. discriminate Ha.
      * pose proof (rank_monotone P1 _ _ L2). lia.
  - apply (tag_no_blank_line ds de l' u b (u + (j - s)) ls Hsp Hu); try assumption; [|lia].
    intros q c Hq. assert (q < length b) as Lq by (apply nth_error_Some; congruence).
    rewrite (Hbody q ltac:(lia)). apply Nat.ltb_lt in Lq. rewrite Lq, Hq. reflexivity.
Qed.

(* ------------------------------------------------------------------------- *)
(** * Part H: deleting from well-formed UTF-8 at whitespace borders *)

(** A deletion whose mask changes only next to a whitespace byte keeps a string well formed: it
    deletes whole characters. *)
Lemma WF_kept_gen t : WF t -> forall i P,
  (forall q c c', nth_error t q = Some c -> nth_error t (S q) = Some c' ->
     P (i + q) <> P (i + S q) -> is_ws c = true \/ is_ws c' = true) ->
  WF (kept_from i P t).
Proof.
  induction 1 as [|b cs rest Hl Hlen Hc Hrest IH]; intros i P H; [constructor|].
  rewrite forallb_forall in Hc.
  assert (forall q, q <= length cs -> P (i + q) = P i) as Hconst.
  { induction q as [|q IHq]; intros Hq; [rewrite Nat.add_0_r; reflexivity|].
    rewrite <- IHq by lia.
    destruct (Bool.bool_dec (P (i + S q)) (P (i + q))) as [E|E]; [exact E | exfalso].
    destruct (nth_error cs q) as [c'|] eqn:E1; [|apply nth_error_None in E1; lia].
    assert (nth_error (b :: cs ++ rest) (S q) = Some c') as N1.
    { cbn [nth_error]. rewrite nth_error_app1 by lia. exact E1. }
    pose proof (cont_not_ws c' (Hc c' (nth_error_In _ _ E1))) as W1.
    destruct q as [|q'].
    - destruct (H 0 b c' eq_refl N1 ltac:(intros E'; apply E; symmetry; exact E')) as [W|W].
      + rewrite (ws_char_len b W) in Hlen. lia.
      + rewrite W in W1. discriminate W1.
    - destruct (nth_error cs q') as [c|] eqn:E2; [|apply nth_error_None in E2; lia].
      assert (nth_error (b :: cs ++ rest) (S q') = Some c) as N2.
      { cbn [nth_error]. rewrite nth_error_app1 by lia. exact E2. }
      pose proof (cont_not_ws c (Hc c (nth_error_In _ _ E2))) as W2.
      destruct (H (S q') c c' N2 N1 ltac:(intros E'; apply E; symmetry; exact E')) as [W|W];
        [rewrite W in W2; discriminate W2 | rewrite W in W1; discriminate W1]. }
  assert (forall q c c', nth_error rest q = Some c -> nth_error rest (S q) = Some c' ->
            P (S i + length cs + q) <> P (S i + length cs + S q) ->
            is_ws c = true \/ is_ws c' = true) as Hshift.
  { intros q c c' H1 H2 H3. apply (H (S (length cs + q)) c c').
    - cbn [nth_error]. rewrite nth_error_app2 by lia.
      replace (length cs + q - length cs) with q by lia. exact H1.
    - change (nth_error (cs ++ rest) (S (length cs + q)) = Some c').
      rewrite nth_error_app2 by lia.
      replace (S (length cs + q) - length cs) with (S q) by lia. exact H2.
    - replace (i + S (length cs + q)) with (S i + length cs + q) by lia.
      replace (i + S (S (length cs + q))) with (S i + length cs + S q) by lia. exact H3. }
  cbn [kept_from]. destruct (P i) eqn:E0.
  - rewrite kept_from_app, kept_from_all.
    + cbn [app]. apply IH. exact Hshift.
    + intros q Hq. replace (S i + q) with (i + S q) by lia. apply Hconst. lia.
  - rewrite kept_from_app, kept_from_none.
    + apply WF_char; try assumption; [apply forallb_forall; exact Hc|]. apply IH. exact Hshift.
    + intros q Hq. replace (S i + q) with (i + S q) by lia. apply Hconst. lia.
Qed.

(* ------------------------------------------------------------------------- *)
(** * Part I: the output of one run *)

(** One run of [clean] on the rendering of a strict forest deletes one pair-respecting mask
    [del] from the symbol list; on the tags it is the mask [tdel] of the marker stage. *)
Theorem clean_run_mask_strict cfg ds de f :
  good_delims ds de -> de_nb de -> good_doc ds de (doc_of f) -> bodies_ok (doc_of f) ->
  Forall ast_ok f -> strict f ->
  exists del,
    pair_respecting del f /\
    (forall i t, nth_error (doc_of f) i = Some (Txt t) ->
       wf_utf8 (kept_from (fstart (doc_of f) i) del t) = true) /\
    (forall it b, nth_error (doc_of f) it = Some (Tag b) ->
       del (fstart (doc_of f) it) = tdel cfg f it) /\
    clean cfg ds de (render ds de (doc_of f)) =
      Ok (rs ds de (sdel_from 0 del (flat (doc_of f)))).
Proof.
  intros Hgd Hnb Hdoc Hbod Hok Hst.
  pose proof (good_delims_sp_ok ds de Hgd) as Hsp.
  destruct (ucollect_markers cfg f Hok) as (ams & E & S1 & _ & K').
  destruct (clean_rendered_pairs cfg ds de (doc_of f) ams Hgd Hnb Hdoc Hbod E)
    as (aR & _ & Ecl & Hws & Hconf).
  pose proof (kept_tag_untouched_u ds de (doc_of f) ams aR Hsp S1 Hconf) as KT0.
  set (doc := doc_of f) in *. set (R := map fst ams) in *. set (P1 := in_rangesb R) in *.
  set (l := flat doc) in *. set (l' := sdelete R l) in *.
  unfold sindex in KT0. fold P1 in KT0.
  assert (forall it b q, nth_error doc it = Some (Tag b) ->
            fstart doc it <= q < fstart doc (S it) -> P1 q = tdel cfg f it) as PT.
  { intros it b q Hit Hq. unfold P1. rewrite K'. apply (del1u_tag cfg f it b q Hst Hit Hq). }
  assert (forall it b, nth_error doc it = Some (Tag b) -> P1 (fstart doc it) = false ->
            forall j, fstart doc it <= j < fstart doc (S it) -> in_rangesb aR (rank P1 j) = false) as KT.
  { intros it b Hit H0 j Hj. apply (KT0 it b Hit).
    - apply (strict_tags f Hst). apply (nth_error_In _ _ Hit).
    - intros q Hq. rewrite (PT it b q Hit Hq). rewrite <- (PT it b _ Hit (tag_start_in doc it b Hit)).
      exact H0.
    - exact Hj. }
  exists (fun i => P1 i || in_rangesb aR (rank P1 i)).
  split; [split|split; [|split]].
  - (* constant on every tag *)
    intros it b Hit j Hj. cbn [Nat.add] in *. fold doc in Hit, Hj. fold doc.
    rewrite (PT it b j Hit Hj), <- (PT it b _ Hit (tag_start_in doc it b Hit)).
    destruct (P1 (fstart doc it)) eqn:E0; [reflexivity|]. cbn [orb].
    rewrite (KT it b Hit E0 j Hj). rewrite (KT it b Hit E0 (fstart doc it) (tag_start_in doc it b Hit)).
    reflexivity.
  - (* the two tags of a node *)
    intros b1 b2 o c Hn.
    pose proof (ast_nodes_at f 0 _ Hn) as (i & j & -> & -> & _ & Hi & Hj). cbn [Nat.add].
    fold doc in Hi, Hj. fold doc.
    assert (P1 (fstart doc i) = P1 (fstart doc j)) as Ec.
    { rewrite (PT i b1 _ Hi (tag_start_in doc i b1 Hi)), (PT j b2 _ Hj (tag_start_in doc j b2 Hj)).
      apply (tdel_node cfg f (b1, b2, i, j) Hn). }
    rewrite <- Ec. destruct (P1 (fstart doc i)) eqn:E0; [reflexivity|]. cbn [orb].
    rewrite (KT i b1 Hi E0 _ (tag_start_in doc i b1 Hi)).
    symmetry in Ec. rewrite (KT j b2 Hj Ec _ (tag_start_in doc j b2 Hj)). reflexivity.
  - (* the kept bytes of a text *)
    intros i t Hi. fold doc in Hi. fold doc. set (s := fstart doc i).
    pose proof (txt_fstart doc i t Hi) as HS. fold s in HS.
    apply wf_utf8_WF. apply WF_kept_gen.
    { apply wf_utf8_WF. destruct Hdoc as (_ & _ & Hwt & _). apply Hwt. apply (nth_error_In _ _ Hi). }
    intros q c c' Hq Hq' Hd.
    assert (S q < length t) as Lq by (apply nth_error_Some; congruence).
    pose proof (txt_sym doc i t q Hi ltac:(lia)) as Y1. rewrite Hq in Y1. cbn [option_map] in Y1.
    pose proof (txt_sym doc i t (S q) Hi Lq) as Y2. rewrite Hq' in Y2. cbn [option_map] in Y2.
    fold s l in Y1, Y2.
    destruct (P1 (s + q)) eqn:A1; destruct (P1 (s + S q)) eqn:A2; cbn [orb] in Hd.
    + exfalso. apply Hd. reflexivity.
    + destruct (del1u_txt_change cfg f i t (s + q) Hst Hi ltac:(fold doc; fold s; lia)
                  ltac:(fold doc; fold s; lia)) as [N|N].
      * rewrite <- !K'. fold R P1. replace (S (s + q)) with (s + S q) by lia. rewrite A1, A2. discriminate.
      * fold doc l in N. rewrite Y1 in N. inversion N. left. reflexivity.
      * fold doc l in N. replace (S (s + q)) with (s + S q) in N by lia. rewrite Y2 in N.
        inversion N. right. reflexivity.
    + destruct (del1u_txt_change cfg f i t (s + q) Hst Hi ltac:(fold doc; fold s; lia)
                  ltac:(fold doc; fold s; lia)) as [N|N].
      * rewrite <- !K'. fold R P1. replace (S (s + q)) with (s + S q) by lia. rewrite A1, A2. discriminate.
      * fold doc l in N. rewrite Y1 in N. inversion N. left. reflexivity.
      * fold doc l in N. replace (S (s + q)) with (s + S q) in N by lia. rewrite Y2 in N.
        inversion N. right. reflexivity.
    + destruct (in_rangesb aR (rank P1 (s + q))) eqn:B1.
      * left. apply in_rangesb_spec in B1. apply (Hws _ c B1). fold doc R l l'. unfold l', sdelete.
        fold P1. rewrite (nth_sdel P1 l (s + q) A1). exact Y1.
      * destruct (in_rangesb aR (rank P1 (s + S q))) eqn:B2; [|exfalso; apply Hd; reflexivity].
        right. apply in_rangesb_spec in B2. apply (Hws _ c' B2). fold doc R l l'. unfold l', sdelete.
        fold P1. rewrite (nth_sdel P1 l (s + S q) A2). exact Y2.
  - intros it b Hit. fold doc in Hit. fold doc.
    rewrite (PT it b _ Hit (tag_start_in doc it b Hit)).
    destruct (tdel cfg f it) eqn:E0; [reflexivity|]. cbn [orb].
    apply (KT it b Hit); [|apply (tag_start_in doc it b Hit)].
    rewrite (PT it b _ Hit (tag_start_in doc it b Hit)). exact E0.
  - rewrite Ecl. fold doc R l l'. unfold l', sdelete. rewrite sdel_compose. reflexivity.
Qed.

(* ------------------------------------------------------------------------- *)
(** * Part J: settled trees: nothing is collected *)

(** A node that is not ready, or an unwrap-block whose content is empty or one text with at most
    two line breaks: its range is empty whatever surrounds it. *)
Definition settled_node2 (cfg : config) (doc : list item) (n : node) : Prop :=
  ~ ready cfg n \/
  (is_unwrap (node_b1 n) = true /\
   (node_close n = S (node_open n) \/
    exists t, node_close n = S (S (node_open n)) /\
              nth_error doc (S (node_open n)) = Some (Txt t) /\ nlcount t <= 2)).

Lemma txt_sym_nl doc i t x : nth_error doc i = Some (Txt t) ->
  fstart doc i <= x -> x < fstart doc i + length t ->
  nth_error (flat doc) x = Some (B NL) -> nth_error t (x - fstart doc i) = Some NL.
Proof.
  intros Hi H1 H2 N. pose proof (txt_sym doc i t (x - fstart doc i) Hi ltac:(lia)) as Y.
  replace (fstart doc i + (x - fstart doc i)) with x in Y by lia. rewrite N in Y.
  destruct (nth_error t (x - fstart doc i)) as [c|]; [|discriminate Y].
  cbn [option_map] in Y. inversion Y. reflexivity.
Qed.

Lemma settled_node2_none cfg doc n : settled_node2 cfg doc n -> node_rr cfg doc n = None.
Proof.
  intros [R|[U K]].
  - unfold node_rr. rewrite (a_element_range_not_ready cfg doc _ _ _ R). reflexivity.
  - unfold node_rr, a_element_range.
    destruct (status cfg (el_of (node_b1 n))) as [[|]|]; try reflexivity.
    unfold a_create. unfold is_unwrap in U. rewrite U. rewrite a_unwrap_empty.
    + rewrite Nat.ltb_irrefl. reflexivity.
    + destruct K as [Ec|(t & Ec & Ht & C)]; rewrite Ec.
      * intros x y z; lia.
      * intros x y z H1 H2 H3 H4 N1 N2 N3. rewrite (txt_fstart doc _ t Ht) in H4.
        pose proof (txt_sym_nl doc _ t x Ht ltac:(lia) ltac:(lia) N1) as X1.
        pose proof (txt_sym_nl doc _ t y Ht ltac:(lia) ltac:(lia) N2) as X2.
        pose proof (txt_sym_nl doc _ t z Ht ltac:(lia) ltac:(lia) N3) as X3.
        assert (3 <= nlcount t) by (refine (nlcount_three t _ _ _ _ _ X1 X2 X3); lia). lia.
Qed.

(** Settled trees. *)
Definition settled_kids (kids : list ast) : Prop :=
  kids = [] \/ exists t, kids = [AT t] /\ nlcount t <= 2.

Fixpoint settled1 (cfg : config) (a : ast) : Prop :=
  match a with
  | AT _ => True
  | AC _ => True
  | AE b1 b2 kids =>
    (status cfg (el_of b1) <> Some true \/ (is_unwrap b1 = true /\ settled_kids kids)) /\
    (fix all (l : list ast) : Prop :=
       match l with [] => True | x :: l' => settled1 cfg x /\ all l' end) kids
  end.
Definition settled (cfg : config) (f : list ast) : Prop := Forall (settled1 cfg) f.

Lemma settled1_AE cfg b1 b2 kids :
  settled1 cfg (AE b1 b2 kids) <->
  (status cfg (el_of b1) <> Some true \/ (is_unwrap b1 = true /\ settled_kids kids)) /\
  settled cfg kids.
Proof.
  cbn [settled1].
  assert ((fix all (l : list ast) : Prop :=
             match l with [] => True | x :: l' => settled1 cfg x /\ all l' end) kids
          <-> settled cfg kids) as E.
  { unfold settled. induction kids as [|x kids IH].
    - split; [constructor | intros _; exact I].
    - split.
      + intros [H1 H2]. constructor; [exact H1 | apply IH; exact H2].
      + intros H. inversion H; subst. split; [assumption | apply IH; assumption]. }
  rewrite E. reflexivity.
Qed.

Lemma nth_error_ctx {X} (pre mid post : list X) k : k < length mid ->
  nth_error (pre ++ mid ++ post) (length pre + k) = nth_error mid k.
Proof.
  intros H. rewrite nth_error_app2 by lia. replace (length pre + k - length pre) with k by lia.
  apply nth_error_app1. exact H.
Qed.

(** In any context, a settled tree contributes nothing to the ready forest. *)
Lemma settled_collect_both cfg :
  (forall a pre post doc base, doc = pre ++ items_of a ++ post -> base = length pre ->
     settled1 cfg a -> fst (ast_collect1 cfg doc false base a) = []) /\
  (forall f pre post doc base, doc = pre ++ doc_of f ++ post -> base = length pre ->
     settled cfg f -> fst (ast_collect cfg doc false base f) = []).
Proof.
  apply (ast_forest_ind
    (fun a => forall pre post doc base, doc = pre ++ items_of a ++ post -> base = length pre ->
       settled1 cfg a -> fst (ast_collect1 cfg doc false base a) = [])
    (fun f => forall pre post doc base, doc = pre ++ doc_of f ++ post -> base = length pre ->
       settled cfg f -> fst (ast_collect cfg doc false base f) = [])).
  - reflexivity.
  - reflexivity.
  - intros b1 b2 kids IH pre post doc base Hd Hb Hs.
    apply settled1_AE in Hs. destruct Hs as [Hn Hk].
    rewrite ast_collect1_AE, (collect_node_rr cfg doc b1 b2).
    rewrite (IH (pre ++ [Tag b1]) (Tag b2 :: post) doc (S base)); [| |rewrite app_length, Hb; cbn [length]; lia | exact Hk].
    2:{ rewrite Hd, items_AE. list_eq. }
    rewrite settled_node2_none; [reflexivity|].
    destruct Hn as [R|[U K]]; [left; exact R | right].
    split; [exact U|]. cbn [node_open node_close].
    destruct K as [->|(t & -> & C)].
    + left. unfold sizes. cbn [map list_sum fold_right]. lia.
    + right. exists t. split; [unfold sizes; cbn [map list_sum fold_right size]; lia|]. split; [|exact C].
      rewrite Hd, Hb. replace (S (length pre)) with (length pre + 1) by lia.
      rewrite nth_error_ctx; [reflexivity|]. cbn. lia.
  - reflexivity.
  - intros x f Hx Hf pre post doc base Hd Hb Hs. inversion Hs; subst.
    cbn [ast_collect]. unfold pair_app. cbn [fst].
    rewrite (Hx pre (doc_of f ++ post) _ (length pre)); try reflexivity; try assumption.
    2:{ rewrite doc_of_cons. list_eq. }
    rewrite (Hf (pre ++ items_of x) post _ (length pre + size x)); try reflexivity; try assumption.
    + rewrite doc_of_cons. list_eq.
    + rewrite app_length, size_items. reflexivity.
Qed.

Theorem settled_no_forest cfg f : Forall ast_ok f -> settled cfg f ->
  fst (a_collect cfg (doc_of f) false) = [].
Proof.
  intros Hok Hs. rewrite (a_collect_ast cfg false f Hok).
  apply (proj2 (settled_collect_both cfg) f [] [] (doc_of f) 0); [|reflexivity | exact Hs].
  cbn [app]. rewrite app_nil_r. reflexivity.
Qed.

(** A settled tree is a fixed point of [clean]. *)
Theorem clean_settled cfg ds de f :
  good_delims ds de -> good_doc ds de (doc_of f) -> bodies_ok (doc_of f) -> Forall ast_ok f ->
  settled cfg f -> clean cfg ds de (render ds de (doc_of f)) = Ok (render ds de (doc_of f)).
Proof.
  intros Hgd Hdoc Hbod Hok Hs. apply clean_empty_forest; try assumption.
  apply settled_no_forest; assumption.
Qed.

(** ** The masked and normalised tree is settled *)

Lemma settled_acons' cfg x nr : settled1 cfg x -> settled cfg nr -> settled cfg (acons' x nr).
Proof.
  intros Hx Hn. unfold settled in *. destruct x as [t|b|b1 b2 kids]; cbn [acons'];
    try (constructor; assumption).
  unfold acons. destruct t as [|c t]; [exact Hn|].
  destruct nr as [|[u|b|b1 b2 kids] r]; try (constructor; [exact I | exact Hn]).
  inversion Hn; subst. constructor; [exact I | assumption].
Qed.

Lemma settled_norm_both cfg :
  (forall a, settled1 cfg a -> settled1 cfg (norm_a a)) /\
  (forall f, settled cfg f -> settled cfg (ast_norm f)).
Proof.
  apply (ast_forest_ind
    (fun a => settled1 cfg a -> settled1 cfg (norm_a a))
    (fun f => settled cfg f -> settled cfg (ast_norm f))).
  - intros t H. exact H.
  - intros b H. exact H.
  - intros b1 b2 kids IH H. rewrite norm_a_AE. apply settled1_AE in H. apply settled1_AE.
    destruct H as [Hn Hk]. split; [|apply IH; exact Hk].
    destruct Hn as [R|[U K]]; [left; exact R | right]. split; [exact U|].
    destruct K as [->|(t & -> & C)]; [left; reflexivity|].
    cbn [ast_norm norm_a acons']. unfold acons. destruct t as [|c t]; [left; reflexivity|].
    right. exists (c :: t). split; [reflexivity | exact C].
  - intros _. constructor.
  - intros x f Hx Hf H. inversion H; subst. cbn [ast_norm].
    apply settled_acons'; [apply Hx | apply Hf]; assumption.
Qed.

Lemma size_pos a : 1 <= size a.
Proof. destruct a; cbn [size]; lia. Qed.

Lemma kids_single kids t : sizes kids = 1 -> nth_error (doc_of kids) 0 = Some (Txt t) ->
  kids = [AT t].
Proof.
  intros Hs Hn. destruct kids as [|x [|y r]].
  - discriminate Hs.
  - rewrite sizes_cons in Hs. destruct x as [t0|b|b1 b2 k]; cbn in Hn.
    + inversion Hn. reflexivity.
    + discriminate Hn.
    + cbn [size] in Hs. unfold sizes in Hs. cbn [map list_sum fold_right] in Hs. lia.
  - rewrite !sizes_cons in Hs. pose proof (size_pos x). pose proof (size_pos y). lia.
Qed.

Lemma settled_mask_both cfg del :
  (forall a pre post doc ib sb, doc = pre ++ items_of a ++ post -> ib = length pre ->
     sb = length (flat pre) ->
     (forall n, In n (nodes1 ib a) -> del (fstart doc (node_open n)) = false ->
                settled_node cfg doc n) ->
     settled cfg (mask1 del sb a)) /\
  (forall f pre post doc ib sb, doc = pre ++ doc_of f ++ post -> ib = length pre ->
     sb = length (flat pre) ->
     (forall n, In n (ast_nodes ib f) -> del (fstart doc (node_open n)) = false ->
                settled_node cfg doc n) ->
     settled cfg (ast_mask del sb f)).
Proof.
  apply (ast_forest_ind
    (fun a => forall pre post doc ib sb, doc = pre ++ items_of a ++ post -> ib = length pre ->
       sb = length (flat pre) ->
       (forall n, In n (nodes1 ib a) -> del (fstart doc (node_open n)) = false ->
                  settled_node cfg doc n) ->
       settled cfg (mask1 del sb a))
    (fun f => forall pre post doc ib sb, doc = pre ++ doc_of f ++ post -> ib = length pre ->
       sb = length (flat pre) ->
       (forall n, In n (ast_nodes ib f) -> del (fstart doc (node_open n)) = false ->
                  settled_node cfg doc n) ->
       settled cfg (ast_mask del sb f))).
  - intros t pre post doc ib sb _ _ _ _. cbn [mask1]. constructor; [exact I | constructor].
  - intros b pre post doc ib sb _ _ _ _. cbn [mask1]. destruct (del sb); constructor; [exact I | constructor].
  - intros b1 b2 kids IH pre post doc ib sb Hd Hi Hs H.
    rewrite nodes1_AE in H. rewrite mask1_AE.
    assert (fstart doc ib = sb) as Efs.
    { rewrite Hd, Hs. apply fstart_ctx. exact Hi. }
    assert (settled cfg (ast_mask del (sb + (length b1 + 2)) kids)) as Hk.
    { apply (IH (pre ++ [Tag b1]) (Tag b2 :: post) doc (S ib) (sb + (length b1 + 2))).
      - rewrite Hd, items_AE. list_eq.
      - rewrite app_length, Hi. cbn [length]. lia.
      - rewrite flat_app, app_length, flat_tag_len, Hs. reflexivity.
      - intros n Hn. apply H. right. exact Hn. }
    destruct (del sb) eqn:E0; [exact Hk|].
    constructor; [|constructor]. apply settled1_AE. split; [|exact Hk].
    pose proof (H (b1, b2, ib, S ib + sizes kids) (or_introl eq_refl)) as H0.
    cbn [node_open] in H0. rewrite Efs in H0. specialize (H0 E0).
    destruct H0 as [R|[U (t & Ec & Ht & C)]]; [left; exact R | right].
    cbn [node_b1] in U. cbn [node_open node_close] in Ec, Ht. split; [exact U|].
    assert (kids = [AT t]) as ->.
    { apply kids_single; [lia|].
      rewrite Hd, Hi, items_AE in Ht. replace (S (length pre)) with (length pre + 1) in Ht by lia.
      rewrite nth_error_ctx in Ht by (rewrite !app_length; cbn [length]; lia).
      cbn [app nth_error] in Ht.
      destruct (doc_of kids) as [|it r] eqn:Ek.
      - exfalso. pose proof (sizes_doc kids) as Hl. rewrite Ek in Hl. cbn [length] in Hl. lia.
      - cbn [app nth_error] in Ht. cbn [nth_error]. exact Ht. }
    right. exists (kept_from (sb + (length b1 + 2)) del t). split; [reflexivity|].
    pose proof (nlcount_kept t (sb + (length b1 + 2)) del). lia.
  - intros pre post doc ib sb _ _ _ _. constructor.
  - intros x f Hx Hf pre post doc ib sb Hd Hi Hs H. rewrite ast_mask_cons.
    cbn [ast_nodes] in H. unfold settled. apply Forall_app. split.
    + apply (Hx pre (doc_of f ++ post) doc ib sb); try assumption.
      * rewrite Hd, doc_of_cons. list_eq.
      * intros n Hn. apply H. apply in_or_app. left. exact Hn.
    + apply (Hf (pre ++ items_of x) post doc (ib + size x) (sb + flen x)).
      * rewrite Hd, doc_of_cons. list_eq.
      * rewrite app_length, size_items, Hi. reflexivity.
      * rewrite flat_app, app_length, Hs. reflexivity.
      * intros n Hn. apply H. apply in_or_app. right. exact Hn.
Qed.

Theorem settled_masked cfg del f :
  (forall n, In n (ast_nodes 0 f) -> del (fstart (doc_of f) (node_open n)) = false ->
             settled_node cfg (doc_of f) n) ->
  settled cfg (ast_norm (ast_mask del 0 f)).
Proof.
  intros H. apply (proj2 (settled_norm_both cfg)).
  apply (proj2 (settled_mask_both cfg del) f [] [] (doc_of f) 0 0); try reflexivity; [|exact H].
  cbn [app]. rewrite app_nil_r. reflexivity.
Qed.

(* ------------------------------------------------------------------------- *)
(** * Part K: the output tree, and idempotence *)

(** What the mask of the marker stage is on a tag: the tag lies in a node removed as a whole, or
    it is one of the two tags of an unwrapped node. *)
Lemma tdel_spec cfg f it : tdel cfg f it = true <->
  exists n r, In n (ast_nodes 0 f) /\ node_rr cfg (doc_of f) n = Some r /\
    match snd r with
    | None => node_open n <= it <= node_close n
    | Some _ => it = node_open n \/ it = node_close n
    end.
Proof.
  unfold tdel, tagdel. rewrite existsb_exists. split.
  - intros (n & Hn & H). destruct (node_rr cfg (doc_of f) n) as [[r0 [cl|]]|] eqn:E; [| |discriminate H].
    + exists n, (r0, Some cl). split; [exact Hn|]. split; [exact E|]. cbn [snd].
      apply orb_true_iff in H. destruct H as [H|H]; apply Nat.eqb_eq in H; [left | right]; exact H.
    + exists n, (r0, None). split; [exact Hn|]. split; [exact E|]. cbn [snd].
      unfold node_hasb in H. apply andb_true_iff in H. destruct H as [H1 H2].
      apply Nat.leb_le in H1. apply Nat.leb_le in H2. lia.
  - intros (n & [r0 [cl|]] & Hn & E & H); exists n; (split; [exact Hn|]); rewrite E; cbn [snd] in H.
    + apply orb_true_iff. destruct H as [->| ->]; [left | right]; apply Nat.eqb_refl.
    + unfold node_hasb. apply andb_true_iff. split; apply Nat.leb_le; lia.
Qed.

(** The output of one run is the rendering of a well-formed, settled syntax tree.  Its elements
    are the elements of the input whose opening tag the marker stage keeps, in the same order. *)
Theorem clean_output_ast_strict : forall cfg ds de f out,
  good_delims ds de -> de_nb de -> good_doc ds de (doc_of f) -> bodies_ok (doc_of f) ->
  Forall ast_ok f -> strict f ->
  clean cfg ds de (render ds de (doc_of f)) = Ok out ->
  exists f2, out = render ds de (doc_of f2) /\ Forall ast_ok f2 /\
    good_doc ds de (doc_of f2) /\ bodies_ok (doc_of f2) /\ settled cfg f2 /\
    map node_bodies (ast_nodes 0 f2) =
    map node_bodies (filter (fun n => negb (tdel cfg f (node_open n))) (ast_nodes 0 f)).
Proof.
  intros cfg ds de f out Hgd Hnb Hdoc Hbod Hok Hst Hc.
  destruct (clean_run_mask_strict cfg ds de f Hgd Hnb Hdoc Hbod Hok Hst)
    as (del & Hpr & Hwf & Htag & Ecl).
  rewrite Ecl in Hc. inversion Hc as [Eout]. clear Hc.
  exists (ast_norm (ast_mask del 0 f)).
  destruct (masked_good ds de f del Hpr Hdoc Hbod Hwf) as [Hg2 Hb2].
  split; [apply masked_rendering; exact Hpr|]. split; [apply masked_ok; exact Hok|].
  split; [exact Hg2|]. split; [exact Hb2|]. split.
  - apply settled_masked. intros n Hn Hd.
    pose proof (node_tags f n Hn) as K. cbv zeta in K. destruct K as (_ & _ & _ & (b1 & Ho) & _).
    rewrite (Htag _ b1 Ho) in Hd.
    apply (strict_none cfg f n Hst Hn). apply (tdel_open_kept cfg f n Hn Hd).
  - rewrite masked_nodes. f_equal. apply filter_ext_in. intros n Hn. f_equal.
    pose proof (node_tags f n Hn) as K. cbv zeta in K. destruct K as (_ & _ & _ & (b1 & Ho) & _).
    apply (Htag _ b1 Ho).
Qed.

(** C19, first half, for strict forests with unwrap-block elements. *)
Theorem clean_idempotent_strict : forall cfg ds de f out,
  good_delims ds de -> de_nb de -> good_doc ds de (doc_of f) -> bodies_ok (doc_of f) ->
  Forall ast_ok f -> strict f ->
  clean cfg ds de (render ds de (doc_of f)) = Ok out ->
  clean cfg ds de out = Ok out.
Proof.
  intros cfg ds de f out Hgd Hnb Hdoc Hbod Hok Hst Hc.
  destruct (clean_output_ast_strict cfg ds de f out Hgd Hnb Hdoc Hbod Hok Hst Hc)
    as (f2 & -> & Hok2 & Hg2 & Hb2 & Hs2 & _).
  apply clean_settled; assumption.
Qed.

(* ------------------------------------------------------------------------- *)
(** * Part L: a decision procedure for [strict], and an instance *)

Definition wrapper_kidsb (kids : list ast) : bool :=
  match kids with
  | [AT _] => true
  | AT t1 :: rest =>
    (2 <=? nlcount t1) && match last rest (AC []) with AT t2 => 2 <=? nlcount t2 | _ => false end
  | _ => false
  end.

Fixpoint strict1b (a : ast) : bool :=
  match a with
  | AT _ => true
  | AC b => negb (mem_b NL b)
  | AE b1 b2 kids =>
    negb (mem_b NL b1) && negb (mem_b NL b2) &&
    (if is_unwrap b1 then wrapper_kidsb kids else true) && forallb strict1b kids
  end.

Lemma wrapper_kidsb_sound kids : wrapper_kidsb kids = true -> wrapper_kids kids.
Proof.
  unfold wrapper_kidsb, wrapper_kids. destruct kids as [|[t1|b|b1 b2 k] rest]; try discriminate.
  destruct rest as [|y r]; [intros _; left; exists t1; reflexivity|].
  intros H. apply andb_true_iff in H. destruct H as [H1 H2]. apply Nat.leb_le in H1.
  right. assert (y :: r <> []) as Ne by discriminate.
  rewrite (app_removelast_last (AC []) Ne). rewrite (app_removelast_last (AC []) Ne) in H2 at 1.
  rewrite last_last in H2.
  destruct (last (y :: r) (AC [])) as [t2|b|b1 b2 k]; try discriminate H2.
  apply Nat.leb_le in H2. exists t1, (removelast (y :: r)), t2. repeat split; assumption.
Qed.

Lemma strict1b_sound a : strict1b a = true -> strict1 a.
Proof.
  induction a as [t | b | b1 b2 kids IH] using ast_ind'; intros H.
  - exact I.
  - cbn [strict1b] in H. apply negb_true_iff in H. apply mem_b_false. exact H.
  - cbn [strict1b] in H. apply andb_true_iff in H. destruct H as [H H4].
    apply andb_true_iff in H. destruct H as [H H3]. apply andb_true_iff in H. destruct H as [H1 H2].
    apply negb_true_iff in H1. apply negb_true_iff in H2.
    apply strict1_AE. split; [apply mem_b_false; exact H1|]. split; [apply mem_b_false; exact H2|].
    split.
    + intros U. rewrite U in H3. apply wrapper_kidsb_sound. exact H3.
    + unfold strict. rewrite forallb_forall in H4. rewrite Forall_forall in IH.
      apply Forall_forall. intros x Hx. apply IH; [exact Hx | apply H4; exact Hx].
Qed.

Lemma strictb_sound f : forallb strict1b f = true -> strict f.
Proof.
  intros H. rewrite forallb_forall in H. apply Forall_forall. intros a Ha.
  apply strict1b_sound. apply H. exact Ha.
Qed.

(** "rm name='f' unwrap-block" *)
Definition b_ub_ready : str := b_rm_ready ++ [32; 117; 110; 119; 114; 97; 112; 45; 98; 108; 111; 99; 107]%N.

(** With the configuration [ac_cfg] (removal marker "rm", target "f") and the delimiters "<!", ">":

      a
      <!rm name='f' unwrap-block>        (ready, unwrapped)
      {
        p
        <!rm name='f'>q<!/rm>            (ready, default strategy)
        <!rm name='g'>r<!/rm>            (pending)
        s
      }
      <!/rm>
      b
      <!rm name='f' unwrap-block>x<!/rm> (ready, but a one-line body: not removable)
      c                                                                               *)
Definition ux_ast : list ast :=
  [ AT [97; 10]%N;
    AE b_ub_ready b_rm_close
       [ AT [10; 123; 10; 32; 32; 112; 10; 32; 32]%N;
         AE b_rm_ready b_rm_close [ AT [113%N] ];
         AT [10; 32; 32]%N;
         AE b_rm_pending b_rm_close [ AT [114%N] ];
         AT [10; 32; 32; 115; 10; 125; 10]%N ];
    AT [10; 98; 10]%N;
    AE b_ub_ready b_rm_close [ AT [120%N] ];
    AT [10; 99]%N ].

(** The output: "a\np\n<!rm name='g'>r<!/rm>\ns\nb\n<!rm name='f' unwrap-block>x<!/rm>\nc":
    the opening tag's line and the wrapper line "{", the wrapper line "}" and the closing tag's
    line are gone, the ready default element is gone with its line, the kept lines are dedented
    by two blanks; the pending element and the unwrap-block with the one-line body are kept. *)
Definition ux_out : str :=
  [97; 10; 112; 10; 60; 33; 114; 109; 32; 110; 97; 109; 101; 61; 39; 103; 39; 62; 114; 60;
   33; 47; 114; 109; 62; 10; 115; 10; 98; 10;
   60; 33; 114; 109; 32; 110; 97; 109; 101; 61; 39; 102; 39; 32; 117; 110; 119; 114; 97; 112;
   45; 98; 108; 111; 99; 107; 62; 120; 60; 33; 47; 114; 109; 62; 10; 99]%N.

Example ux_ok : Forall ast_ok ux_ast.
Proof.
  apply Forall_forall. intros a Ha. apply ast_okb_sound.
  assert (forallb ast_okb ux_ast = true) as H by (vm_compute; reflexivity).
  rewrite forallb_forall in H. apply H. exact Ha.
Qed.

Example ux_strict : strict ux_ast.
Proof. apply strictb_sound. vm_compute. reflexivity. Qed.

(** The nodes: (opening item, closing item, ready, unwrap-block, collected range over symbol
    indices).  The first unwrap-block is applicable (two parts), the second is not (no range). *)
Example ux_nodes :
  map (fun n : node => (node_open n, node_close n, readyb ac_cfg n, is_unwrap (node_b1 n),
                        node_rr ac_cfg (doc_of ux_ast) n)) (ast_nodes 0 ux_ast) =
  [ (1, 11, true, true, Some ((2, 30), Some (83, 90)));
    (3, 5, true, false, Some ((37, 56), None));
    (7, 9, false, false, None);
    (13, 15, true, true, None) ].
Proof. vm_compute. reflexivity. Qed.

Example ux_de_nb : de_nb id_de.
Proof. intros c H. cbn in H. inversion H. reflexivity. Qed.

Example ux_good : good_doc id_ds id_de (doc_of ux_ast) /\ bodies_ok (doc_of ux_ast).
Proof.
  split.
  - apply doc_checkb_ok; [cbn; repeat split; discriminate | vm_compute; reflexivity].
  - intros b Hin. cbn in Hin.
    repeat (destruct Hin as [E|Hin]; [try discriminate E; inversion E; subst; cbn; lia|]).
    destruct Hin.
Qed.

(** The first run, computed. *)
Example ux_first : clean ac_cfg id_ds id_de (render id_ds id_de (doc_of ux_ast)) = Ok ux_out.
Proof. vm_compute. reflexivity. Qed.

Example ux_shorter : length ux_out < length (render id_ds id_de (doc_of ux_ast)).
Proof. vm_compute. lia. Qed.

(** The second run, computed ... *)
Example ux_second_computed : clean ac_cfg id_ds id_de ux_out = Ok ux_out.
Proof. vm_compute. reflexivity. Qed.

(** ... and by the theorem. *)
Example ux_second : clean ac_cfg id_ds id_de ux_out = Ok ux_out.
Proof.
  apply (clean_idempotent_strict ac_cfg id_ds id_de ux_ast ux_out id_delims ux_de_nb
           (proj1 ux_good) (proj2 ux_good) ux_ok ux_strict ux_first).
Qed.

(** The syntax tree of the output. *)
Definition ux_ast2 : list ast :=
  [ AT [97; 10; 112; 10]%N;
    AE b_rm_pending b_rm_close [ AT [114%N] ];
    AT [10; 115; 10; 98; 10]%N;
    AE b_ub_ready b_rm_close [ AT [120%N] ];
    AT [10; 99]%N ].

Example ux_out_ast : ux_out = render id_ds id_de (doc_of ux_ast2).
Proof. vm_compute. reflexivity. Qed.

(** The surviving elements by the theorem: the pending element and the unwrap-block that is not
    removable. *)
Example ux_output_ast :
  exists f2, ux_out = render id_ds id_de (doc_of f2) /\ Forall ast_ok f2 /\ settled ac_cfg f2 /\
    map node_bodies (ast_nodes 0 f2) = [ (b_rm_pending, b_rm_close); (b_ub_ready, b_rm_close) ].
Proof.
  destruct (clean_output_ast_strict ac_cfg id_ds id_de ux_ast ux_out id_delims ux_de_nb
              (proj1 ux_good) (proj2 ux_good) ux_ok ux_strict ux_first)
    as (f2 & E & Hok & _ & _ & Hs & Hn).
  exists f2. split; [exact E|]. split; [exact Hok|]. split; [exact Hs|]. rewrite Hn.
  vm_compute. reflexivity.
Qed.

Print Assumptions next_lb_le.
Print Assumptions prev_lb_ge.
Print Assumptions a_unwrap_cases.
Print Assumptions a_unwrap_empty.
Print Assumptions ucollect_wf.
Print Assumptions ucollect_markers.
Print Assumptions strict_tags.
Print Assumptions strict_wrap.
Print Assumptions strict_parts.
Print Assumptions del1u_txt_change.
Print Assumptions del1u_tag.
Print Assumptions tdel_node.
Print Assumptions tdel_open_kept.
Print Assumptions strict_none.
Print Assumptions clean_rendered_pairs.
Print Assumptions tag_no_blank_line.
Print Assumptions kept_tag_untouched_u.
Print Assumptions WF_kept_gen.
Print Assumptions clean_run_mask_strict.
Print Assumptions settled_no_forest.
Print Assumptions clean_settled.
Print Assumptions settled_masked.
Print Assumptions tdel_spec.
Print Assumptions clean_output_ast_strict.
Print Assumptions clean_idempotent_strict.
Print Assumptions strictb_sound.
Print Assumptions ux_strict.
Print Assumptions ux_first.
Print Assumptions ux_second.
Print Assumptions ux_output_ast.
