(** Every leading copy of the start delimiter and every trailing copy of the end delimiter is stripped from
    the text of a tag before it is parsed ([trim_start_matches] / [trim_end_matches]): a tag written with a
    doubled delimiter ([<<marker ...>], [[[marker]]]) parses like the tag with one copy. *)
From Coq Require Import List NArith Arith Bool Lia.
Import ListNotations.
From Chiri Require Import Base.Bytes Base.Res Model.TagParser Proofs.BytesLemmas Proofs.TokenizerProofs.

Lemma tsm_fuel p : p <> [] -> forall f1 f2 s, length s <= f1 -> length s <= f2 ->
  trim_start_matches f1 p s = trim_start_matches f2 p s.
Proof.
  intros Hp. induction f1 as [|f1 IH]; intros f2 s H1 H2.
  - assert (s = []) by (destruct s; [reflexivity | cbn in H1; lia]). subst s.
    destruct f2 as [|f2]; cbn [trim_start_matches]; [reflexivity|].
    destruct (prefix p []) eqn:E; [|reflexivity]. apply prefix_nil_r in E. contradiction.
  - destruct f2 as [|f2].
    + assert (s = []) by (destruct s; [reflexivity | cbn in H2; lia]). subst s.
      cbn [trim_start_matches]. destruct (prefix p []) eqn:E; [|reflexivity].
      apply prefix_nil_r in E. contradiction.
    + cbn [trim_start_matches]. destruct (prefix p s) eqn:E; [|reflexivity].
      pose proof (prefix_length _ _ E) as HL.
      assert (0 < length p) by (destruct p; [contradiction | cbn; lia]).
      apply IH; rewrite skipn_length; lia.
Qed.

Lemma trim_start_copy p s : p <> [] -> trim_start p (p ++ s) = trim_start p s.
Proof.
  intros Hp. unfold trim_start. destruct p as [|a p']; [contradiction|].
  set (p := a :: p') in *.
  assert (0 < length p) by (subst p; cbn; lia).
  destruct (length (p ++ s)) as [|f] eqn:EL; [rewrite app_length in EL; lia|].
  cbn [trim_start_matches]. rewrite prefix_app.
  rewrite skipn_app, skipn_all, Nat.sub_diag. cbn [skipn app].
  apply tsm_fuel; [exact Hp| |lia]. rewrite app_length in EL. lia.
Qed.

Lemma trim_end_copy p s : p <> [] -> trim_end p (s ++ p) = trim_end p s.
Proof.
  intros Hp. unfold trim_end. rewrite rev_app_distr. rewrite trim_start_copy; [reflexivity|].
  intro E. apply Hp. rewrite <- (rev_involutive p), E. reflexivity.
Qed.

(** [trim_start] never looks behind a point where the pattern does not match: stripping the end delimiter
    first and the start delimiter second is what the code does; a second copy at either end changes nothing. *)
Theorem doubled_start_delimiter : forall ds de v, ds <> [] ->
  parse_value ds de (ds ++ v) = parse_value ds de v.
Proof. intros ds de v H. unfold parse_value. rewrite trim_start_copy by exact H. reflexivity. Qed.

Lemma trim_start_unfold p s : p <> [] ->
  trim_start p s = if prefix p s then trim_start p (skipn (length p) s) else s.
Proof.
  intros Hp. unfold trim_start. destruct p as [|a p']; [contradiction|]. set (p := a :: p') in *.
  destruct (prefix p s) eqn:E.
  - pose proof (prefix_length _ _ E) as HL.
    assert (0 < length p) by (subst p; cbn; lia).
    destruct (length s) as [|f] eqn:EL; [lia|].
    cbn [trim_start_matches]. rewrite E. apply tsm_fuel; [exact Hp| |lia]. rewrite skipn_length. lia.
  - destruct (length s); cbn [trim_start_matches]; [reflexivity|]. rewrite E. reflexivity.
Qed.

Lemma trim_start_app p t : p <> [] -> forall n s, length s <= n ->
  prefix p (trim_start p s ++ t) = false -> trim_start p (s ++ t) = trim_start p s ++ t.
Proof.
  intros Hp. induction n as [|n IH]; intros s Hn Hnp.
  - assert (s = []) by (destruct s; [reflexivity | cbn in Hn; lia]). subst s.
    rewrite (trim_start_unfold p []) in * by exact Hp.
    destruct (prefix p []) eqn:E; [apply prefix_nil_r in E; contradiction|].
    cbn [app] in *. rewrite trim_start_unfold by exact Hp. rewrite Hnp. reflexivity.
  - rewrite (trim_start_unfold p s) in * by exact Hp.
    rewrite (trim_start_unfold p (s ++ t)) by exact Hp.
    destruct (prefix p s) eqn:E.
    + pose proof (prefix_length _ _ E) as HL.
      assert (0 < length p) by (destruct p; [contradiction | cbn; lia]).
      assert (E2 : prefix p (s ++ t) = true).
      { apply prefix_spec in E. destruct E as [r ->]. rewrite <- app_assoc. apply prefix_app. }
      rewrite E2. rewrite skipn_app. replace (length p - length s) with 0 by lia. cbn [skipn].
      apply IH; [rewrite skipn_length; lia | exact Hnp].
    + rewrite Hnp. reflexivity.
Qed.

(** A second copy of the end delimiter behind the tag is stripped as well, provided the start delimiter does not
    begin a new match across the seam (always the case when the stripped body is not empty and the start
    delimiter does not occur there). *)
Theorem doubled_end_delimiter : forall ds de v, ds <> [] -> de <> [] ->
  prefix ds (trim_start ds v ++ de) = false ->
  parse_value ds de (v ++ de) = parse_value ds de v.
Proof.
  intros ds de v Hs He Hnp. unfold parse_value.
  rewrite (trim_start_app ds de Hs (length v) v (le_n _) Hnp).
  rewrite trim_end_copy by exact He. reflexivity.
Qed.
