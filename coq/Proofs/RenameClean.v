(** C18, tag names: cleaning commutes with a consistent renaming of the tag names.

    The two halves of the argument are in [Proofs.RespellBodies] (cleaning commutes with every
    respelling of the tag bodies that keeps the tree and the removal decisions) and in
    [Proofs.RenameTags] (renaming the name inside every element tag, and the two configured names,
    keeps parsing, pairing and the removal decisions).  This file assembles them.

    Part 1: the two notions of "trees of the same structure" ([RenameTags.same_tree] with two body
            relations, [RespellBodies.same_tree] with one).
    Part 2: the decisions of the renamed configuration on the renamed tree.
    Part 3: the theorem ([clean_rename_tag_names]).
    Part 4: the renamed document is a good document as soon as the new names contain no delimiter
            byte; the theorem with this weaker hypothesis ([clean_rename_tag_names_weak]).
    Part 5: the consequence on the output text ([clean_rename_output]).
    Part 6: two instances. *)
From Coq Require Import List NArith ZArith Arith Bool Lia PeanoNat.
Import ListNotations.
From Chiri Require Import Base.Bytes Base.Res Model.Tokenizer Model.TagParser Model.TreeParser
     Model.Finders Model.Markers Model.Format Model.Clean
     Spec.TagGrammar Spec.Ranges Spec.Forest Spec.Rename Spec.Simulation
     Proofs.ResLemmas Proofs.Utf8 Proofs.Utf8Lemmas Proofs.RenameProofs Proofs.SimFront Proofs.SimClean
     Proofs.WellNested Proofs.DocMask Proofs.AstCollect Proofs.Idempotent Proofs.SimBody
     Proofs.RespellBodies Proofs.RenameTags.

(* ------------------------------------------------------------------------- *)
(** * Part 1: the two notions of trees of the same structure *)

(** The relation of [Proofs.RenameTags] with the relations [Pc] (comment tags) and [Pe] (element
    tags) implies the relation of [Proofs.RespellBodies] with the union of the two. *)
Lemma bridge_both (Pc Pe : str -> str -> Prop) :
  (forall a a', RenameTags.same1 Pc Pe a a' ->
                RespellBodies.same1 (fun b b' => Pc b b' \/ Pe b b') a a') /\
  (forall f f', RenameTags.same_tree Pc Pe f f' ->
                RespellBodies.same_tree (fun b b' => Pc b b' \/ Pe b b') f f').
Proof.
  apply (ast_forest_ind
    (fun a => forall a', RenameTags.same1 Pc Pe a a' ->
                         RespellBodies.same1 (fun b b' => Pc b b' \/ Pe b b') a a')
    (fun f => forall f', RenameTags.same_tree Pc Pe f f' ->
                         RespellBodies.same_tree (fun b b' => Pc b b' \/ Pe b b') f f')).
  - intros t a' H. inversion H; subst. reflexivity.
  - intros b a' H. inversion H; subst. cbn [RespellBodies.same1]. left. assumption.
  - intros b1 b2 kids IH a' H. inversion H as [| | ? ? ? c1 c2 k' H1 H2 H3]; subst.
    apply RespellBodies.same1_AE. exists c1, c2, k'.
    split; [reflexivity|]. split; [right; exact H1|]. split; [right; exact H2|]. apply IH. exact H3.
  - intros f' H. inversion H; subst. exact I.
  - intros x f Hx Hf f' H. inversion H as [|? x' ? r' H1 H2]; subst.
    cbn [RespellBodies.same_tree]. split; [apply Hx; exact H1 | apply Hf; exact H2].
Qed.

Theorem same_tree_bridge (Pc Pe : str -> str -> Prop) f f' :
  RenameTags.same_tree Pc Pe f f' ->
  RespellBodies.same_tree (fun b b' => Pc b b' \/ Pe b b') f f'.
Proof. apply (proj2 (bridge_both Pc Pe)). Qed.

(** [RespellBodies.same_tree] is monotone in the relation. *)
Lemma same_tree_weaken (P Q : str -> str -> Prop) :
  (forall b b', P b b' -> Q b b') ->
  forall f f', RespellBodies.same_tree P f f' -> RespellBodies.same_tree Q f f'.
Proof.
  intros HPQ.
  apply (proj2 (RespellBodies.same_ind P
    (fun a a' => RespellBodies.same1 Q a a') (fun f f' => RespellBodies.same_tree Q f f')
    ltac:(intros t; reflexivity)
    ltac:(intros b b' H; apply HPQ; exact H)
    ltac:(intros b1 b2 kids c1 c2 k' H1 H2 _ IH; apply RespellBodies.same1_AE;
          exists c1, c2, k'; repeat split; auto)
    I
    ltac:(intros x x' f f' _ _ Hx Hf; split; assumption))).
Qed.

(** The syntax tree of a well-formed structured tree and the one of its renaming: every comment
    tag and every text is unchanged, every element tag is renamed. *)
Theorem same_tree_rename_tast rho f : tast_ok f ->
  RespellBodies.same_tree (P_any rho) (to_ast f) (to_ast (rename_tast rho f)).
Proof.
  intros Hok. apply (same_tree_bridge P_comment (P_elem rho)). apply same_tree_rename. exact Hok.
Qed.

(* ------------------------------------------------------------------------- *)
(** * Part 2: the decisions *)

(** The renamed configuration takes on the opening tags of the renamed tree the decisions that the
    original configuration takes on the opening tags of the original tree. *)
Theorem decisions_rename (D : str -> Prop) (rho : str -> str) cfg f :
  admissible D rho -> cfg_ok D cfg -> tast_ok f -> names_in D f ->
  decisions (rename_cfg rho cfg) (to_ast (rename_tast rho f)) = decisions cfg (to_ast f).
Proof.
  intros A C Hok Hd. unfold decisions.
  rewrite (opens_nodes (to_ast (rename_tast rho f)) 0), (opens_nodes (to_ast f) 0), !map_map.
  exact (readyb_rename_nodes D rho cfg f 0 A C Hok Hd).
Qed.

(* ------------------------------------------------------------------------- *)
(** * Part 3: cleaning commutes with the renaming of the tag names *)

(** [RespellBodies.same_tree (P_any rho) g g'] says: the syntax tree of the output for the renamed
    document is the syntax tree of the output for the original one with every surviving element
    tag renamed and every comment tag and every text unchanged. *)
Theorem clean_rename_tag_names : forall D rho cfg ds de f out,
  admissible D rho -> cfg_ok D cfg -> tast_ok f -> names_in D f -> no_unwrap (to_ast f) ->
  good_delims ds de ->
  good_doc ds de (doc_of (to_ast f)) -> bodies_ok (doc_of (to_ast f)) ->
  good_doc ds de (doc_of (to_ast (rename_tast rho f))) -> bodies_ok (doc_of (to_ast (rename_tast rho f))) ->
  clean cfg ds de (render ds de (doc_of (to_ast f))) = Ok out ->
  exists g g', out = render ds de (doc_of g) /\
    clean (rename_cfg rho cfg) ds de (render ds de (doc_of (to_ast (rename_tast rho f)))) = Ok (render ds de (doc_of g')) /\
    RespellBodies.same_tree (P_any rho) g g'.
Proof.
  intros D rho cfg ds de f out A C Hok Hd Hnu Hgd Hdoc Hbod Hdoc' Hbod' Hc.
  pose proof (tast_ok_rename D rho f A Hd Hok) as Hok'.
  destruct (clean_respell_gen (P_any rho) cfg (rename_cfg rho cfg) ds de
              (to_ast f) (to_ast (rename_tast rho f)) out Hgd
              Hdoc Hbod (tast_ok_ast_ok f Hok) Hnu
              Hdoc' Hbod' (tast_ok_ast_ok _ Hok') (no_unwrap_rename D rho f A Hok Hd Hnu)
              (same_tree_rename_tast rho f Hok))
    as (g & g' & Eo & Ec & Hs & _ & _).
  - symmetry. apply (decisions_rename D rho cfg f A C Hok Hd).
  - exact Hc.
  - exists g, g'. split; [exact Eo|]. split; [exact Ec | exact Hs].
Qed.

(** With the set of all slash-free well-formed names, the condition on the names is free. *)
Corollary clean_rename_tag_names_dom : forall rho cfg ds de f out,
  admissible name_dom rho -> cfg_ok name_dom cfg -> tast_ok f -> no_unwrap (to_ast f) ->
  good_delims ds de ->
  good_doc ds de (doc_of (to_ast f)) -> bodies_ok (doc_of (to_ast f)) ->
  good_doc ds de (doc_of (to_ast (rename_tast rho f))) -> bodies_ok (doc_of (to_ast (rename_tast rho f))) ->
  clean cfg ds de (render ds de (doc_of (to_ast f))) = Ok out ->
  exists g g', out = render ds de (doc_of g) /\
    clean (rename_cfg rho cfg) ds de (render ds de (doc_of (to_ast (rename_tast rho f)))) = Ok (render ds de (doc_of g')) /\
    RespellBodies.same_tree (P_any rho) g g'.
Proof.
  intros rho cfg ds de f out A C Hok. apply (clean_rename_tag_names name_dom rho cfg ds de f out A C Hok).
  apply tast_ok_names. exact Hok.
Qed.

(* ------------------------------------------------------------------------- *)
(** * Part 4: the renamed document is a good document *)

(** The relation between an element tag and its renaming, with the name in the set [D]. *)
Definition P_elemD (D : str -> Prop) (rho : str -> str) (b b' : str) : Prop :=
  exists t, wf_tag t = true /\ wf_utf8 (print_body t) = true /\ trim_slashes (tg_name t) <> [] /\
            D (trim_slashes (tg_name t)) /\
            b = print_body t /\ b' = print_body (rename_tag rho t).
Definition P_anyD (D : str -> Prop) (rho : str -> str) (b b' : str) : Prop :=
  P_comment b b' \/ P_elemD D rho b b'.

Lemma P_anyD_any D rho b b' : P_anyD D rho b b' -> P_any rho b b'.
Proof.
  intros [H|(t & W & U & N & _ & E1 & E2)]; [left; exact H|].
  right. exists t. repeat split; assumption.
Qed.

Lemma same_treeD_maps (D : str -> Prop) rho l :
  Forall (fun a => tast_ok1 a -> Forall (fun t => D (tg_name t)) (openers1 a) ->
                   RespellBodies.same1 (P_anyD D rho) (to_ast1 a) (to_ast1 (rename_tast1 rho a))) l ->
  Forall tast_ok1 l -> Forall (fun a => Forall (fun t => D (tg_name t)) (openers1 a)) l ->
  RespellBodies.same_tree (P_anyD D rho) (map to_ast1 l) (map to_ast1 (map (rename_tast1 rho) l)).
Proof.
  induction 1 as [|a l Ha _ IH]; intros H1 H2; [exact I|].
  inversion H1; subst. inversion H2; subst. cbn [map RespellBodies.same_tree]. split; auto.
Qed.

Lemma same1_renameD (D : str -> Prop) rho a :
  tast_ok1 a -> Forall (fun t => D (tg_name t)) (openers1 a) ->
  RespellBodies.same1 (P_anyD D rho) (to_ast1 a) (to_ast1 (rename_tast1 rho a)).
Proof.
  induction a as [t | b | t1 t2 kids IH] using tast_ind'; intros Hok Hd;
    inversion Hok as [| | ? ? ? W1 W2 U1 U2 S1 S2 T K]; subst; cbn [rename_tast1 to_ast1].
  - reflexivity.
  - left. reflexivity.
  - cbn [openers1] in Hd. inversion Hd as [|? ? D1 Dk]; subst.
    apply RespellBodies.same1_AE.
    exists (print_body (rename_tag rho t1)), (print_body (rename_tag rho t2)),
           (map to_ast1 (map (rename_tast1 rho) kids)).
    split; [reflexivity|]. split; [|split].
    + right. exists t1. rewrite (trim_noslash _ S1).
      repeat split; try assumption. apply (wf_tag_name_nonempty t1 W1).
    + right. exists t2. rewrite T.
      repeat split; try assumption. apply (wf_tag_name_nonempty t1 W1).
    + apply Forall_flat_map in Dk. apply same_treeD_maps; assumption.
Qed.

(** The same as [same_tree_rename_tast], recording that the names lie in [D]. *)
Theorem same_tree_renameD (D : str -> Prop) rho f : tast_ok f -> names_in D f ->
  RespellBodies.same_tree (P_anyD D rho) (to_ast f) (to_ast (rename_tast rho f)).
Proof.
  intros Hok Hd. unfold names_in, openers_of in Hd. apply Forall_flat_map in Hd.
  unfold to_ast, rename_tast. apply same_treeD_maps; [|exact Hok | exact Hd].
  apply Forall_forall. intros a _. apply same1_renameD.
Qed.

(** ** One renamed tag body *)

Lemma in_slashes x n : In x (slashes n) -> In x n.
Proof. intros H. rewrite <- (slashes_trim n). apply in_or_app. left. exact H. Qed.

Lemma print_body_rename_nonempty (D : str -> Prop) rho t :
  admissible D rho -> D (trim_slashes (tg_name t)) -> print_body (rename_tag rho t) <> [].
Proof.
  intros A Hn E. rewrite print_body_rename in E.
  apply app_eq_nil in E. destruct E as [_ E]. apply app_eq_nil in E. destruct E as [E _].
  unfold rn in E. apply app_eq_nil in E. destruct E as [_ E]. apply (adm_nonempty D rho A _ Hn E).
Qed.

(** The bytes of a renamed tag body are bytes of the original body or bytes of the new name. *)
Lemma disjoint_rename (D : str -> Prop) rho ds de t :
  D (trim_slashes (tg_name t)) -> (forall n, D n -> disjoint_from ds de (rho n)) ->
  disjoint_from ds de (print_body t) -> disjoint_from ds de (print_body (rename_tag rho t)).
Proof.
  intros Hn Hdis H x Hx. rewrite print_body_rename in Hx. rewrite print_body_parts in H.
  apply in_app_or in Hx. destruct Hx as [Hx|Hx]; [apply H; apply in_or_app; left; exact Hx|].
  apply in_app_or in Hx. destruct Hx as [Hx|Hx];
    [|apply H; apply in_or_app; right; apply in_or_app; right; exact Hx].
  unfold rn in Hx. apply in_app_or in Hx. destruct Hx as [Hx|Hx].
  - apply H. apply in_or_app. right. apply in_or_app. left. apply in_slashes. exact Hx.
  - apply (Hdis _ Hn x Hx).
Qed.

(** ** Documents of the same shape *)

Lemma shape_rel_in_tag (P : str -> str -> Prop) d d' : shape_rel P d d' ->
  forall b', In (Tag b') d' -> exists b, In (Tag b) d /\ P b b'.
Proof.
  unfold shape_rel. induction 1 as [|x y l l' Hxy _ IH]; intros b' Hin; [destruct Hin|].
  destruct Hin as [E|Hin].
  - subst y. destruct x as [t|b]; [contradiction|]. exists b. split; [left; reflexivity | exact Hxy].
  - destruct (IH b' Hin) as (b & H1 & H2). exists b. split; [right; exact H1 | exact H2].
Qed.

Lemma shape_rel_in_txt (P : str -> str -> Prop) d d' : shape_rel P d d' -> forall t, In (Txt t) d' -> In (Txt t) d.
Proof.
  unfold shape_rel. induction 1 as [|x y l l' Hxy _ IH]; intros t Hin; [destruct Hin|].
  destruct Hin as [E|Hin].
  - subst y. destruct x as [u|b]; [|contradiction]. subst u. left. reflexivity.
  - right. apply IH. exact Hin.
Qed.

Lemma shape_rel_normal (P : str -> str -> Prop) d d' : (forall b b', P b b' -> b <> [] -> b' <> []) ->
  shape_rel P d d' -> normal d -> normal d'.
Proof.
  intros HP. revert d d'.
  apply (shape_rel_ind' P (fun d d' => normal d -> normal d')).
  - intros _. exact I.
  - intros t r1 r2 Hr IH Hn. cbn [normal] in *. destruct Hn as (H1 & H2 & H3).
    split; [exact H1|]. split; [|apply IH; exact H3].
    destruct Hr as [|a b l l' Hab _]; [exact I|].
    destruct a as [u|c], b as [u'|c']; try contradiction; exact I.
  - intros b1 b2 r1 r2 Hb _ IH Hn. cbn [normal] in *. destruct Hn as (H1 & H2).
    split; [apply (HP b1 b2 Hb H1) | apply IH; exact H2].
Qed.

(** ** The renamed document *)

(** The only condition that does not follow from the original document and admissibility: the new
    names contain no byte of the delimiters. *)
Theorem good_doc_rename (D : str -> Prop) rho ds de f :
  admissible D rho -> tast_ok f -> names_in D f ->
  (forall n, D n -> disjoint_from ds de (rho n)) ->
  good_doc ds de (doc_of (to_ast f)) ->
  good_doc ds de (doc_of (to_ast (rename_tast rho f))) /\
  bodies_ok (doc_of (to_ast (rename_tast rho f))).
Proof.
  intros A Hok Hd Hdis (Hn & Hdj & Ht & Hb).
  pose proof (same_tree_doc _ _ _ (same_tree_renameD D rho f Hok Hd)) as HS.
  assert (forall b b', P_anyD D rho b b' -> b <> [] -> b' <> []) as Hne.
  { intros b b' [Hc|(t & _ & _ & _ & Dn & _ & E2)] Hb0.
    - unfold P_comment in Hc. subst b'. exact Hb0.
    - subst b'. apply (print_body_rename_nonempty D rho t A Dn). }
  assert (forall b', In (Tag b') (doc_of (to_ast (rename_tast rho f))) ->
            disjoint_from ds de b' /\ wf_utf8 b' = true) as HT.
  { intros b' Hin.
    destruct (shape_rel_in_tag _ _ _ HS b' Hin) as (b & Hb0 & [Hc|(t & W & U & N & Dn & E1 & E2)]).
    - unfold P_comment in Hc. subst b'. split; [apply (Hdj (Tag b) Hb0) | apply (Hb b Hb0)].
    - subst b b'. split.
      + apply (disjoint_rename D rho ds de t Dn Hdis). apply (Hdj (Tag (print_body t)) Hb0).
      + apply (wf_utf8_rename D rho t A Dn W U). }
  assert (good_doc ds de (doc_of (to_ast (rename_tast rho f)))) as G.
  { split; [|split; [|split]].
    - apply (shape_rel_normal _ _ _ Hne HS Hn).
    - intros [t|b'] Hin.
      + apply (Hdj (Txt t)). apply (shape_rel_in_txt _ _ _ HS t Hin).
      + apply (HT b' Hin).
    - intros t Hin. apply Ht. apply (shape_rel_in_txt _ _ _ HS t Hin).
    - intros b' Hin. apply (HT b' Hin). }
  split; [exact G|]. apply wf_bodies_ok. apply G.
Qed.

(** The theorem with the weaker hypotheses: of the renamed document only the absence of delimiter
    bytes in the new names of its elements is asked ([bodies_ok] follows from [good_doc]). *)
Theorem clean_rename_tag_names_weak : forall D rho cfg ds de f out,
  admissible D rho -> cfg_ok D cfg -> tast_ok f -> names_in D f -> no_unwrap (to_ast f) ->
  good_delims ds de ->
  good_doc ds de (doc_of (to_ast f)) ->
  (forall t, In t (openers_of f) -> disjoint_from ds de (rho (tg_name t))) ->
  clean cfg ds de (render ds de (doc_of (to_ast f))) = Ok out ->
  exists g g', out = render ds de (doc_of g) /\
    clean (rename_cfg rho cfg) ds de (render ds de (doc_of (to_ast (rename_tast rho f)))) = Ok (render ds de (doc_of g')) /\
    RespellBodies.same_tree (P_any rho) g g'.
Proof.
  intros D rho cfg ds de f out A C Hok Hd Hnu Hgd Hdoc Hdis Hc.
  destruct (good_doc_rename (fun n => D n /\ disjoint_from ds de (rho n)) rho ds de f) as [G B];
    try assumption.
  - apply (admissible_sub D); [intros n [H _]; exact H | exact A].
  - unfold names_in in *. rewrite Forall_forall in *. intros t Ht. split; [apply Hd | apply Hdis]; exact Ht.
  - intros n [_ H]. exact H.
  - apply (clean_rename_tag_names D rho cfg ds de f out A C Hok Hd Hnu Hgd Hdoc); try assumption.
    apply wf_bodies_ok. apply Hdoc.
Qed.

(** The form with a condition on the whole set of names. *)
Corollary clean_rename_tag_names_set : forall (D : str -> Prop) rho cfg ds de f out,
  admissible D rho -> cfg_ok D cfg -> tast_ok f -> names_in D f -> no_unwrap (to_ast f) ->
  good_delims ds de ->
  good_doc ds de (doc_of (to_ast f)) ->
  (forall n, D n -> disjoint_from ds de (rho n)) ->
  clean cfg ds de (render ds de (doc_of (to_ast f))) = Ok out ->
  exists g g', out = render ds de (doc_of g) /\
    clean (rename_cfg rho cfg) ds de (render ds de (doc_of (to_ast (rename_tast rho f)))) = Ok (render ds de (doc_of g')) /\
    RespellBodies.same_tree (P_any rho) g g'.
Proof.
  intros D rho cfg ds de f out A C Hok Hd Hnu Hgd Hdoc Hdis.
  apply (clean_rename_tag_names_weak D rho cfg ds de f out A C Hok Hd Hnu Hgd Hdoc).
  intros t Ht. apply Hdis. unfold names_in in Hd. rewrite Forall_forall in Hd. apply Hd. exact Ht.
Qed.

(** The same for the set of all slash-free well-formed names. *)
Corollary clean_rename_tag_names_weak_dom : forall rho cfg ds de f out,
  admissible name_dom rho -> cfg_ok name_dom cfg -> tast_ok f -> no_unwrap (to_ast f) ->
  good_delims ds de ->
  good_doc ds de (doc_of (to_ast f)) ->
  (forall t, In t (openers_of f) -> disjoint_from ds de (rho (tg_name t))) ->
  clean cfg ds de (render ds de (doc_of (to_ast f))) = Ok out ->
  exists g g', out = render ds de (doc_of g) /\
    clean (rename_cfg rho cfg) ds de (render ds de (doc_of (to_ast (rename_tast rho f)))) = Ok (render ds de (doc_of g')) /\
    RespellBodies.same_tree (P_any rho) g g'.
Proof.
  intros rho cfg ds de f out A C Hok.
  apply (clean_rename_tag_names_weak name_dom rho cfg ds de f out A C Hok).
  apply tast_ok_names. exact Hok.
Qed.

(* ------------------------------------------------------------------------- *)
(** * Part 5: the output text *)

(** The texts of a document in order, and the kinds of its items ([true] for a tag). *)
Definition text_of (it : item) : list str := match it with Txt t => [t] | Tag _ => [] end.
Definition texts_of (doc : list item) : list str := flat_map text_of doc.
Definition is_tag (it : item) : bool := match it with Txt _ => false | Tag _ => true end.
Definition kinds_of (doc : list item) : list bool := map is_tag doc.

(** Two documents of the same shape with related bodies: the same kinds of items in the same
    order, the same texts, related tag bodies. *)
Lemma shape_rel_parts (P : str -> str -> Prop) d d' : shape_rel P d d' ->
  kinds_of d' = kinds_of d /\ texts_of d' = texts_of d /\ Forall2 P (tags_of d) (tags_of d').
Proof.
  revert d d'.
  apply (shape_rel_ind' P (fun d d' =>
    kinds_of d' = kinds_of d /\ texts_of d' = texts_of d /\ Forall2 P (tags_of d) (tags_of d'))).
  - repeat split. constructor.
  - intros t r1 r2 _ (K & T & G). unfold kinds_of, texts_of, tags_of in *.
    cbn [map flat_map is_tag text_of tag_body app]. rewrite K, T. repeat split. exact G.
  - intros b1 b2 r1 r2 Hb _ (K & T & G). unfold kinds_of, texts_of, tags_of in *.
    cbn [map flat_map is_tag text_of tag_body app]. rewrite K, T. repeat split. constructor; assumption.
Qed.

(** A document is determined by the kinds of its items, its texts and its tag bodies. *)
Lemma doc_parts_inj d d' :
  kinds_of d' = kinds_of d -> texts_of d' = texts_of d -> tags_of d' = tags_of d -> d' = d.
Proof.
  revert d'. induction d as [|[t|b] d IH]; intros [|[t'|b'] d'] K T G; try discriminate K; try reflexivity;
    unfold kinds_of, texts_of, tags_of in *; cbn [map flat_map is_tag text_of tag_body app] in *;
    inversion K as [K']; [inversion T as [[E T']] | inversion G as [[E G']]]; subst;
    f_equal; apply IH; assumption.
Qed.

Theorem same_tree_output (P : str -> str -> Prop) g g' : RespellBodies.same_tree P g g' ->
  kinds_of (doc_of g') = kinds_of (doc_of g) /\
  texts_of (doc_of g') = texts_of (doc_of g) /\
  Forall2 P (tags_of (doc_of g)) (tags_of (doc_of g')).
Proof. intros H. apply shape_rel_parts. apply same_tree_doc. exact H. Qed.

(** The outputs of the two runs as documents: the same sequence of texts and tags, the texts are
    identical, and the tag bodies of the second output are those of the first one, renamed (a
    comment tag is unchanged, an element tag [print_body t] becomes [print_body (rename_tag rho t)]). *)
Theorem clean_rename_output : forall D rho cfg ds de f out,
  admissible D rho -> cfg_ok D cfg -> tast_ok f -> names_in D f -> no_unwrap (to_ast f) ->
  good_delims ds de ->
  good_doc ds de (doc_of (to_ast f)) ->
  (forall t, In t (openers_of f) -> disjoint_from ds de (rho (tg_name t))) ->
  clean cfg ds de (render ds de (doc_of (to_ast f))) = Ok out ->
  exists d d', out = render ds de d /\
    clean (rename_cfg rho cfg) ds de (render ds de (doc_of (to_ast (rename_tast rho f)))) = Ok (render ds de d') /\
    kinds_of d' = kinds_of d /\
    texts_of d' = texts_of d /\
    Forall2 (P_any rho) (tags_of d) (tags_of d').
Proof.
  intros D rho cfg ds de f out A C Hok Hd Hnu Hgd Hdoc Hdis Hc.
  destruct (clean_rename_tag_names_weak D rho cfg ds de f out A C Hok Hd Hnu Hgd Hdoc Hdis Hc)
    as (g & g' & Eo & Ec & Hs).
  exists (doc_of g), (doc_of g'). split; [exact Eo|]. split; [exact Ec|].
  apply same_tree_output. exact Hs.
Qed.

(** The same from the hypotheses of [clean_rename_tag_names]. *)
Theorem clean_rename_output_strong : forall D rho cfg ds de f out,
  admissible D rho -> cfg_ok D cfg -> tast_ok f -> names_in D f -> no_unwrap (to_ast f) ->
  good_delims ds de ->
  good_doc ds de (doc_of (to_ast f)) -> bodies_ok (doc_of (to_ast f)) ->
  good_doc ds de (doc_of (to_ast (rename_tast rho f))) -> bodies_ok (doc_of (to_ast (rename_tast rho f))) ->
  clean cfg ds de (render ds de (doc_of (to_ast f))) = Ok out ->
  exists d d', out = render ds de d /\
    clean (rename_cfg rho cfg) ds de (render ds de (doc_of (to_ast (rename_tast rho f)))) = Ok (render ds de d') /\
    kinds_of d' = kinds_of d /\
    texts_of d' = texts_of d /\
    Forall2 (P_any rho) (tags_of d) (tags_of d').
Proof.
  intros D rho cfg ds de f out A C Hok Hd Hnu Hgd Hdoc Hbod Hdoc' Hbod' Hc.
  destruct (clean_rename_tag_names D rho cfg ds de f out A C Hok Hd Hnu Hgd Hdoc Hbod Hdoc' Hbod' Hc)
    as (g & g' & Eo & Ec & Hs).
  exists (doc_of g), (doc_of g'). split; [exact Eo|]. split; [exact Ec|].
  apply same_tree_output. exact Hs.
Qed.

(* ------------------------------------------------------------------------- *)
(** * Part 6: two instances *)

Definition disjointb (ds de x : str) : bool :=
  forallb (fun b => negb (mem_b b ds) && negb (mem_b b de)) x.

Lemma disjointb_sound ds de x : disjointb ds de x = true -> disjoint_from ds de x.
Proof.
  intros H b Hb. unfold disjointb in H. rewrite forallb_forall in H. specialize (H b Hb).
  apply andb_prop in H. destruct H as [H1 H2]. apply negb_true_iff in H1, H2.
  split; apply mem_b_false; assumption.
Qed.

Lemma new_names_checkb ds de rho f :
  forallb (fun t => disjointb ds de (rho (tg_name t))) (openers_of f) = true ->
  forall t, In t (openers_of f) -> disjoint_from ds de (rho (tg_name t)).
Proof. intros H t Ht. rewrite forallb_forall in H. apply disjointb_sound. apply (H t Ht). Qed.

Lemma no_unwrap_checkb f :
  forallb (fun t => negb (has_attr S_UNWRAP (el_attrs (el_of (print_body t))))) (openers_of f) = true ->
  no_unwrap (to_ast f).
Proof.
  intros H. apply no_unwrap_openers. intros t Ht. rewrite forallb_forall in H.
  apply negb_true_iff. apply (H t Ht).
Qed.

(** ** The document of [Proofs.RenameTags]

    With the delimiters "<!" and ">":
    <! tl to='2000-01-01 00:00:00' >a<! rm name='f' >b<! /rm >c<! /tl >
    and, renamed,
    <! time-limited to='2000-01-01 00:00:00' >a<! removal-marker name='f' >b<! /removal-marker >c<! /time-limited >.
    The outer element is ready: both outputs are empty. *)
Example ex_no_unwrap : no_unwrap (to_ast ex_tast).
Proof. apply no_unwrap_checkb. vm_compute. reflexivity. Qed.

Example ex_good :
  good_doc id_ds id_de (doc_of (to_ast ex_tast)) /\ bodies_ok (doc_of (to_ast ex_tast)) /\
  good_doc id_ds id_de (doc_of (to_ast (rename_tast rho_ex ex_tast))) /\
  bodies_ok (doc_of (to_ast (rename_tast rho_ex ex_tast))).
Proof.
  split; [|split; [|split]].
  - apply doc_checkb_ok; [vm_compute; repeat split; discriminate | vm_compute; reflexivity].
  - apply bodies_okb_sound. vm_compute. reflexivity.
  - apply doc_checkb_ok; [vm_compute; repeat split; discriminate | vm_compute; reflexivity].
  - apply bodies_okb_sound. vm_compute. reflexivity.
Qed.

Example ex_first :
  clean ex_cfg id_ds id_de (render id_ds id_de (doc_of (to_ast ex_tast))) = Ok [].
Proof. vm_compute. reflexivity. Qed.

Example ex_second_computed :
  clean (rename_cfg rho_ex ex_cfg) id_ds id_de
        (render id_ds id_de (doc_of (to_ast (rename_tast rho_ex ex_tast)))) = Ok [].
Proof. vm_compute. reflexivity. Qed.

(** The old configuration does not recognise the renamed document. *)
Example ex_second_old_cfg :
  clean ex_cfg id_ds id_de (render id_ds id_de (doc_of (to_ast (rename_tast rho_ex ex_tast)))) =
  Ok (render id_ds id_de (doc_of (to_ast (rename_tast rho_ex ex_tast)))).
Proof. vm_compute. reflexivity. Qed.

(** The theorem on the instance. *)
Example ex_theorem :
  exists g g', [] = render id_ds id_de (doc_of g) /\
    clean (rename_cfg rho_ex ex_cfg) id_ds id_de
          (render id_ds id_de (doc_of (to_ast (rename_tast rho_ex ex_tast)))) =
      Ok (render id_ds id_de (doc_of g')) /\
    RespellBodies.same_tree (P_any rho_ex) g g'.
Proof.
  destruct ex_good as (G1 & B1 & G2 & B2).
  apply (clean_rename_tag_names_dom rho_ex ex_cfg id_ds id_de ex_tast []
           rho_ex_admissible ex_cfg_ok ex_tast_ok ex_no_unwrap id_delims G1 B1 G2 B2 ex_first).
Qed.

(** ** A document whose output is not empty

    a
    <!tl to='2030-01-01 00:00:00'>                 (pending)
      p
      <! rm name='f' >b<! /rm >                    (ready)
      <!div>q<!/div><!=>                           (an element that is not configured; a comment tag)
    <!/tl>
    c                                                                          *)
Definition S_DATE30 : str := [50;48;51;48;45;48;49;45;48;49;32;48;48;58;48;48;58;48;48]%N.
Definition ex_tl_pending : tag_ast :=
  mkTag 0 S_TL [mkAttr [SP] S_TO (Some (0, 0, QSingle, S_DATE30))] [].
Definition ex_tl_close0 : tag_ast := mkTag 0 (SLASH :: S_TL) [] [].
Definition S_DIV : str := [100;105;118]%N.
Definition ex_div_open : tag_ast := mkTag 0 S_DIV [] [].
Definition ex_div_close : tag_ast := mkTag 0 (SLASH :: S_DIV) [] [].

Definition ex2_tast : list tast :=
  [ TT [97;10]%N;
    TE ex_tl_pending ex_tl_close0
       [ TT [10;32;32;112;10;32;32]%N;
         TE ex_rm_open ex_rm_close [ TT [98]%N ];
         TT [10;32;32]%N;
         TE ex_div_open ex_div_close [ TT [113]%N ];
         TC [61]%N;
         TT [10]%N ];
    TT [10;99]%N ].

(** The expected output: the line of the ready element is gone. *)
Definition ex2_out : list tast :=
  [ TT [97;10]%N;
    TE ex_tl_pending ex_tl_close0
       [ TT [10;32;32;112;10;32;32]%N;
         TE ex_div_open ex_div_close [ TT [113]%N ];
         TC [61]%N;
         TT [10]%N ];
    TT [10;99]%N ].

Example ex2_tast_ok : tast_ok ex2_tast /\ tast_ok ex2_out.
Proof.
  split;
  repeat (first [ apply Forall_nil | apply Forall_cons | apply tok_TT
                | apply tok_TC; vm_compute; reflexivity
                | apply tok_TE; try (vm_compute; reflexivity) ]).
Qed.

Example ex2_no_unwrap : no_unwrap (to_ast ex2_tast).
Proof. apply no_unwrap_checkb. vm_compute. reflexivity. Qed.

Example ex2_good : good_doc id_ds id_de (doc_of (to_ast ex2_tast)).
Proof. apply doc_checkb_ok; [vm_compute; repeat split; discriminate | vm_compute; reflexivity]. Qed.

Example ex2_new_names :
  forall t, In t (openers_of ex2_tast) -> disjoint_from id_ds id_de (rho_ex (tg_name t)).
Proof. apply new_names_checkb. vm_compute. reflexivity. Qed.

(** The decisions: pending, ready, not configured. *)
Example ex2_decisions :
  decisions ex_cfg (to_ast ex2_tast) = [false; true; false] /\
  decisions (rename_cfg rho_ex ex_cfg) (to_ast (rename_tast rho_ex ex2_tast)) = [false; true; false] /\
  decisions ex_cfg (to_ast (rename_tast rho_ex ex2_tast)) = [false; false; false].
Proof. repeat split; vm_compute; reflexivity. Qed.

(** The new tag bodies. *)
Example ex2_tags :
  tags_of (doc_of (to_ast (rename_tast rho_ex ex2_out))) =
  [ (S_TIME_LIMITED ++ [32;116;111;61;39] ++ S_DATE30 ++ [39])%N;
    (S_X ++ S_DIV)%N; (SLASH :: S_X ++ S_DIV)%N; [61]%N; (SLASH :: S_TIME_LIMITED)%N ].
Proof. vm_compute. reflexivity. Qed.

(** Both runs, computed: the second output is the first one, renamed. *)
Example ex2_first :
  clean ex_cfg id_ds id_de (render id_ds id_de (doc_of (to_ast ex2_tast))) =
  Ok (render id_ds id_de (doc_of (to_ast ex2_out))).
Proof. vm_compute. reflexivity. Qed.

Example ex2_second_computed :
  clean (rename_cfg rho_ex ex_cfg) id_ds id_de
        (render id_ds id_de (doc_of (to_ast (rename_tast rho_ex ex2_tast)))) =
  Ok (render id_ds id_de (doc_of (to_ast (rename_tast rho_ex ex2_out)))).
Proof. vm_compute. reflexivity. Qed.

Example ex2_outputs_differ :
  render id_ds id_de (doc_of (to_ast ex2_out)) <>
  render id_ds id_de (doc_of (to_ast (rename_tast rho_ex ex2_out))) /\
  render id_ds id_de (doc_of (to_ast ex2_out)) <> render id_ds id_de (doc_of (to_ast ex2_tast)).
Proof. split; vm_compute; discriminate. Qed.

(** The old configuration on the renamed document removes nothing. *)
Example ex2_second_old_cfg :
  clean ex_cfg id_ds id_de (render id_ds id_de (doc_of (to_ast (rename_tast rho_ex ex2_tast)))) =
  Ok (render id_ds id_de (doc_of (to_ast (rename_tast rho_ex ex2_tast)))).
Proof. vm_compute. reflexivity. Qed.

(** The second run from the first one by the theorem with the weaker hypotheses. *)
Example ex2_theorem :
  exists g g', render id_ds id_de (doc_of (to_ast ex2_out)) = render id_ds id_de (doc_of g) /\
    clean (rename_cfg rho_ex ex_cfg) id_ds id_de
          (render id_ds id_de (doc_of (to_ast (rename_tast rho_ex ex2_tast)))) =
      Ok (render id_ds id_de (doc_of g')) /\
    RespellBodies.same_tree (P_any rho_ex) g g'.
Proof.
  apply (clean_rename_tag_names_weak_dom rho_ex ex_cfg id_ds id_de ex2_tast _
           rho_ex_admissible ex_cfg_ok (proj1 ex2_tast_ok) ex2_no_unwrap id_delims ex2_good
           ex2_new_names ex2_first).
Qed.

Example ex2_output :
  exists d d', render id_ds id_de (doc_of (to_ast ex2_out)) = render id_ds id_de d /\
    clean (rename_cfg rho_ex ex_cfg) id_ds id_de
          (render id_ds id_de (doc_of (to_ast (rename_tast rho_ex ex2_tast)))) =
      Ok (render id_ds id_de d') /\
    kinds_of d' = kinds_of d /\ texts_of d' = texts_of d /\
    Forall2 (P_any rho_ex) (tags_of d) (tags_of d').
Proof.
  apply (clean_rename_output name_dom rho_ex ex_cfg id_ds id_de ex2_tast _
           rho_ex_admissible ex_cfg_ok (proj1 ex2_tast_ok) (tast_ok_names _ (proj1 ex2_tast_ok))
           ex2_no_unwrap id_delims ex2_good ex2_new_names ex2_first).
Qed.

(** The relation of the conclusion holds between the two computed outputs. *)
Example ex2_out_related :
  RespellBodies.same_tree (P_any rho_ex) (to_ast ex2_out) (to_ast (rename_tast rho_ex ex2_out)).
Proof. apply same_tree_rename_tast. apply ex2_tast_ok. Qed.

(** Why the condition on the new names cannot be dropped: with the delimiters "x-" and ">" the
    renaming [rho_ex] produces the name "x-div", which contains the opening delimiter; the
    original document is a good document for these delimiters, the renamed one is not. *)
Definition bad_ds : str := S_X.
Definition bad_doc : list tast := [ TE ex_div_open ex_div_close [ TT [113]%N ] ].

Example bad_delims_counterexample :
  good_delims bad_ds id_de /\ tast_ok bad_doc /\
  good_doc bad_ds id_de (doc_of (to_ast bad_doc)) /\
  ~ good_doc bad_ds id_de (doc_of (to_ast (rename_tast rho_ex bad_doc))).
Proof.
  split.
  { unfold good_delims, bad_ds, S_X, id_de.
    repeat split; try discriminate; try (vm_compute; reflexivity);
      apply mem_b_false; vm_compute; reflexivity. }
  split.
  { repeat (first [ apply Forall_nil | apply Forall_cons | apply tok_TT
                  | apply tok_TE; try (vm_compute; reflexivity) ]). }
  split; [apply doc_checkb_ok; [vm_compute; repeat split; discriminate | vm_compute; reflexivity]|].
  intros (_ & Hd & _).
  specialize (Hd (Tag (S_X ++ S_DIV)) ltac:(left; reflexivity) 120%N ltac:(left; reflexivity)).
  destruct Hd as [Hd _]. apply Hd. left. reflexivity.
Qed.

Print Assumptions same_tree_bridge.
Print Assumptions same_tree_weaken.
Print Assumptions same_tree_rename_tast.
Print Assumptions decisions_rename.
Print Assumptions clean_rename_tag_names.
Print Assumptions clean_rename_tag_names_dom.
Print Assumptions same_tree_renameD.
Print Assumptions good_doc_rename.
Print Assumptions clean_rename_tag_names_weak.
Print Assumptions clean_rename_tag_names_set.
Print Assumptions clean_rename_tag_names_weak_dom.
Print Assumptions shape_rel_parts.
Print Assumptions doc_parts_inj.
Print Assumptions same_tree_output.
Print Assumptions clean_rename_output.
Print Assumptions clean_rename_output_strong.
Print Assumptions ex_no_unwrap.
Print Assumptions ex_good.
Print Assumptions ex_first.
Print Assumptions ex_second_computed.
Print Assumptions ex_second_old_cfg.
Print Assumptions ex_theorem.
Print Assumptions ex2_tast_ok.
Print Assumptions ex2_no_unwrap.
Print Assumptions ex2_good.
Print Assumptions ex2_new_names.
Print Assumptions ex2_decisions.
Print Assumptions ex2_tags.
Print Assumptions ex2_first.
Print Assumptions ex2_second_computed.
Print Assumptions ex2_outputs_differ.
Print Assumptions ex2_second_old_cfg.
Print Assumptions ex2_theorem.
Print Assumptions ex2_output.
Print Assumptions ex2_out_related.
Print Assumptions bad_delims_counterexample.
