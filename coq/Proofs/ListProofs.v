(** C15 / C16: the rendered list item is the specification of Spec/ListSpec.v. *)
From Coq Require Import List NArith Arith Bool Lia PeanoNat.
Import ListNotations.
From Chiri Require Import Base.Bytes Base.Res Model.Finders Model.ListRender Spec.ListSpec
     Proofs.ResLemmas Proofs.BytesLemmas Proofs.Utf8 Proofs.C15Proofs.

(* ------------------------------------------------------------------------- *)
(** * Lists *)

Definition NoB (c : byte) (s : str) : Prop := Forall (fun b => b <> c) s.

Lemma NoB_of_nth c s : (forall i, nth_error s i <> Some c) -> NoB c s.
Proof.
  intros H. apply Forall_forall. intros x Hx E. subst x.
  apply In_nth_error in Hx. destruct Hx as [i Hi]. exact (H i Hi).
Qed.

Lemma NoB_app c x y : NoB c (x ++ y) <-> NoB c x /\ NoB c y.
Proof. apply Forall_app. Qed.

Lemma Forall_firstn {A} (P : A -> Prop) n : forall l, Forall P l -> Forall P (firstn n l).
Proof.
  induction n as [|n IH]; intros l H; [constructor|].
  destruct H as [|x l Hx Hl]; cbn [firstn]; constructor; auto.
Qed.

Lemma Forall_skipn {A} (P : A -> Prop) n : forall l, Forall P l -> Forall P (skipn n l).
Proof.
  induction n as [|n IH]; intros l H; [exact H|].
  destruct H as [|x l Hx Hl]; cbn [skipn]; [constructor | auto].
Qed.

Lemma Forall_sub (P : byte -> Prop) s a b : Forall P s -> Forall P (sub s a b).
Proof. intros H. unfold sub. apply Forall_firstn, Forall_skipn, H. Qed.

Lemma firstn_add {A} n m : forall (l : list A),
  firstn (n + m) l = firstn n l ++ firstn m (skipn n l).
Proof.
  induction n as [|n IH]; intros l; [reflexivity|].
  destruct l as [|x l]; cbn [Nat.add firstn skipn app].
  - rewrite firstn_nil. reflexivity.
  - rewrite IH. reflexivity.
Qed.

Lemma firstn_S_nth {A} (s : list A) i c :
  nth_error s i = Some c -> firstn (S i) s = firstn i s ++ [c].
Proof.
  revert s. induction i as [|i IH]; intros [|x s] H; cbn [nth_error] in H; try discriminate H.
  - inversion H; subst. reflexivity.
  - rewrite !firstn_cons. cbn [app]. rewrite (IH s H). reflexivity.
Qed.

Lemma sub_app s a b c : a <= b -> b <= c -> sub s a b ++ sub s b c = sub s a c.
Proof.
  intros H1 H2. unfold sub. replace (c - a) with ((b - a) + (c - b)) by lia.
  rewrite firstn_add, skipn_add. replace (a + (b - a)) with b by lia. reflexivity.
Qed.

Lemma firstn_sub s a b : a <= b -> firstn b s = firstn a s ++ sub s a b.
Proof.
  intros H. unfold sub. replace b with (a + (b - a)) at 1 by lia. apply firstn_add.
Qed.

Lemma sub_one s i c : nth_error s i = Some c -> sub s i (S i) = [c].
Proof.
  intros H. unfold sub. apply nth_skipn_cons in H. destruct H as [tl E]. rewrite E.
  replace (S i - i) with 1 by lia. reflexivity.
Qed.

Lemma sub_length s a b : a <= b -> b <= length s -> length (sub s a b) = b - a.
Proof. intros H1 H2. unfold sub. rewrite firstn_length, skipn_length. lia. Qed.

Lemma skipn_S_tl {A} (s : list A) i x tl : skipn i s = x :: tl -> skipn (S i) s = tl.
Proof.
  intros E. replace (S i) with (i + 1) by lia. rewrite <- skipn_add, E. reflexivity.
Qed.

Lemma sub_range_Forall (P : byte -> Prop) s : forall n a,
  (forall j x, a <= j < a + n -> nth_error s j = Some x -> P x) ->
  Forall P (firstn n (skipn a s)).
Proof.
  induction n as [|n IH]; intros a H; [constructor|].
  destruct (skipn a s) as [|x tl] eqn:E; [constructor|].
  cbn [firstn]. constructor.
  - apply (H a); [lia|]. apply (skipn_cons_nth s a x tl E).
  - rewrite <- (skipn_S_tl s a x tl E). apply IH. intros j y Hj. apply H. lia.
Qed.

Lemma sub_Forall (P : byte -> Prop) s a b :
  (forall j x, a <= j < b -> nth_error s j = Some x -> P x) -> Forall P (sub s a b).
Proof.
  intros H. unfold sub. apply sub_range_Forall. intros j x Hj. apply H. lia.
Qed.

Lemma sub_NoB c s a b :
  (forall j, a <= j < b -> nth_error s j <> Some c) -> NoB c (sub s a b).
Proof.
  intros H. apply sub_Forall. intros j x Hj Hn E. subst x. exact (H j Hj Hn).
Qed.

Lemma flat_map_ext_in {A B} (f g : A -> list B) l :
  (forall a, In a l -> f a = g a) -> flat_map f l = flat_map g l.
Proof.
  induction l as [|x l IH]; intros H; [reflexivity|].
  cbn [flat_map]. rewrite (H x) by (left; reflexivity). rewrite IH; [reflexivity|].
  intros a Ha. apply H. right. exact Ha.
Qed.

Lemma nth_error_lt_Some {A} (s : list A) i : i < length s -> exists c, nth_error s i = Some c.
Proof.
  intros H. destruct (nth_error s i) as [c|] eqn:E; [exists c; reflexivity|].
  apply nth_error_None in E. lia.
Qed.

(* ------------------------------------------------------------------------- *)
(** * Decimal rendering and the line-number column *)

Lemma dec_loop_ge32 : forall fuel n acc,
  Forall (fun b => (32 <= b)%N) acc -> Forall (fun b => (32 <= b)%N) (dec_loop fuel n acc).
Proof.
  induction fuel as [|f IH]; intros n acc H; cbn [dec_loop]; [exact H|].
  assert (Forall (fun b => (32 <= b)%N) ((48 + n mod 10)%N :: acc)) as H'.
  { constructor; [generalize (n mod 10)%N; intros m; lia | exact H]. }
  destruct (n <? 10)%N; [exact H' | apply IH; exact H'].
Qed.

Lemma line_column_ge32 i : Forall (fun b => (32 <= b)%N) (line_column i).
Proof.
  unfold line_column. cbv zeta. apply Forall_app. split.
  - apply Forall_forall. intros x Hx. apply repeat_spec in Hx. subst. unfold SP. lia.
  - apply Forall_app. split.
    + apply dec_loop_ge32. constructor.
    + repeat constructor; unfold SP; lia.
Qed.

Lemma line_column_NoB c i : (c < 32)%N -> NoB c (line_column i).
Proof.
  intros Hc. unfold NoB. eapply Forall_impl; [|apply line_column_ge32].
  cbv beta. intros b Hb E. subst. lia.
Qed.

Lemma dec_loop_length : forall k fuel n acc,
  (n < 10 ^ N.of_nat (S k))%N -> length (dec_loop fuel n acc) <= length acc + S k.
Proof.
  induction k as [|k IH]; intros fuel n acc Hn; destruct fuel as [|f]; cbn [dec_loop]; try lia.
  - destruct (N.ltb_spec n 10) as [L|L]; [cbn [length]; lia|].
    exfalso. change (10 ^ N.of_nat 1)%N with 10%N in Hn. lia.
  - destruct (N.ltb_spec n 10) as [L|L]; [cbn [length]; lia|].
    assert (n / 10 < 10 ^ N.of_nat (S k))%N as Hd.
    { apply N.div_lt_upper_bound; [lia|]. rewrite <- N.pow_succ_r', <- Nat2N.inj_succ. exact Hn. }
    apply (IH f _ ((48 + n mod 10)%N :: acc)) in Hd. cbn [length] in Hd. lia.
Qed.

(** fixed-width line-number column *)
Lemma line_column_width : forall i, (N.of_nat i < 10000000)%N -> length (line_column i) = 9.
Proof.
  intros i Hi. unfold line_column. cbv zeta. rewrite !app_length, repeat_length. cbn [length].
  assert (length (dec i) <= 7) as H.
  { unfold dec. apply (dec_loop_length 6 (S i) (N.of_nat i) []).
    change (10 ^ N.of_nat 7)%N with 10000000%N. exact Hi. }
  lia.
Qed.

(* ------------------------------------------------------------------------- *)
(** * Counting line breaks; line numbers *)

Lemma count_nl_app x y : count_nl (x ++ y) = count_nl x + count_nl y.
Proof. unfold count_nl. rewrite filter_app, app_length. reflexivity. Qed.

Lemma count_nl_NoB u : NoB NL u -> count_nl u = 0.
Proof.
  unfold count_nl. induction 1 as [|x u Hx Hu IH]; [reflexivity|].
  cbn [filter]. apply beq_neq in Hx. rewrite Hx. exact IH.
Qed.

Lemma count_nl_firstn_S s i :
  i < length s -> nth_error s i <> Some NL ->
  count_nl (firstn (S i) s) = count_nl (firstn i s).
Proof.
  intros Hi Hn. destruct (nth_error_lt_Some s i Hi) as [c Hc].
  rewrite (firstn_S_nth s i c Hc), count_nl_app.
  rewrite (count_nl_NoB [c]); [lia|]. constructor; [|constructor].
  intros E. subst c. exact (Hn Hc).
Qed.

Lemma count_nl_firstn_mono s a b : a <= b -> count_nl (firstn a s) <= count_nl (firstn b s).
Proof. intros H. rewrite (firstn_sub s a b H), count_nl_app. lia. Qed.

(** line numbers are the 1-based numbers of the lines holding the first and the last character *)
Theorem line_range_spec : forall content a b first last,
  a < b -> b <= length content ->
  nth_error content a <> Some NL -> nth_error content (b - 1) <> Some NL ->
  get_line_range (build_line_map content) (a, b) = Ok (first, last) ->
  first = 1 + count_nl (firstn a content) /\ last = 1 + count_nl (firstn (b - 1) content) /\ first <= last.
Proof.
  intros content a b first last Hab Hb Hna Hnb H.
  unfold get_line_range in H. cbn [fst snd] in H. rewrite (csub_le b 1) in H by lia.
  cbn [bind] in H. inversion H as [[H1 H2]]. clear H.
  rewrite !find_line_counts_line_breaks.
  rewrite (count_nl_firstn_S content a) by (assumption || lia).
  rewrite (count_nl_firstn_S content (b - 1)) by (assumption || lia).
  pose proof (count_nl_firstn_mono content a (b - 1)) as Hm.
  split; [reflexivity|]. split; [reflexivity|]. lia.
Qed.

(* ------------------------------------------------------------------------- *)
(** * [lines], [split_nl], [join_nl] on text without carriage returns *)

Lemma strip_cr_id l : NoB CR l -> strip_cr l = l.
Proof.
  intros H. unfold strip_cr. destruct (rev l) as [|b r] eqn:E; [reflexivity|].
  destruct (beq b CR) eqn:B; [|reflexivity]. exfalso.
  apply beq_eq in B. subst b.
  assert (In CR l) as Hin. { apply in_rev. rewrite E. left. reflexivity. }
  unfold NoB in H. rewrite Forall_forall in H. exact (H CR Hin eq_refl).
Qed.

Lemma strip_cr_Forall (P : byte -> Prop) l : Forall P l -> Forall P (strip_cr l).
Proof.
  intros H. unfold strip_cr. destruct (rev l) as [|b r] eqn:E; [exact H|].
  destruct (beq b CR); [|exact H].
  apply Forall_forall. intros x Hx. rewrite Forall_forall in H. apply H.
  apply in_rev. rewrite E. right. apply in_rev in Hx. exact Hx.
Qed.

Lemma lines_loop_Forall (P : byte -> Prop) : forall s cur,
  Forall P s -> Forall P cur -> Forall (Forall P) (lines_loop s cur).
Proof.
  induction s as [|b s IH]; intros cur Hs Hc; cbn [lines_loop].
  - destruct cur; constructor; [exact Hc | constructor].
  - inversion Hs as [|b' s' Hb Hs']; subst. destruct (beq b NL).
    + constructor; [apply strip_cr_Forall; exact Hc | apply IH; [exact Hs' | constructor]].
    + apply IH; [exact Hs'|]. apply Forall_app. split; [exact Hc | constructor; [exact Hb | constructor]].
Qed.

Lemma lines_Forall (P : byte -> Prop) s : Forall P s -> Forall (Forall P) (lines s).
Proof. intros H. apply lines_loop_Forall; [exact H | constructor]. Qed.

Lemma lines_loop_snoc_NL : forall s cur, NoB CR s -> NoB CR cur ->
  lines_loop (s ++ [NL]) cur = split_nl s cur.
Proof.
  induction s as [|b s IH]; intros cur Hs Hc; cbn [app lines_loop split_nl].
  - change (beq NL NL) with true. cbv iota. rewrite (strip_cr_id cur Hc). reflexivity.
  - inversion Hs as [|b' s' Hb Hs']; subst. destruct (beq b NL).
    + rewrite (strip_cr_id cur Hc). rewrite IH; [reflexivity | exact Hs' | constructor].
    + apply IH; [exact Hs'|]. apply NoB_app. split; [exact Hc | constructor; [exact Hb | constructor]].
Qed.

Lemma lines_snoc_NL s : NoB CR s -> lines (s ++ [NL]) = split_nl s [].
Proof. intros H. apply lines_loop_snoc_NL; [exact H | constructor]. Qed.

Lemma join_nl_cons l L : L <> [] -> join_nl (l :: L) = l ++ [NL] ++ join_nl L.
Proof. destruct L; [congruence | reflexivity]. Qed.

Lemma join_lines_loop_snoc : forall x cur c, NoB CR x -> NoB CR cur -> c <> NL ->
  join_nl (lines_loop (x ++ [c]) cur) = cur ++ x ++ [c].
Proof.
  induction x as [|b x IH]; intros cur c Hx Hc Hn; cbn [app lines_loop].
  - apply beq_neq in Hn. rewrite Hn. cbn [lines_loop].
    destruct (cur ++ [c]) as [|y t] eqn:E; [destruct cur; discriminate E | reflexivity].
  - inversion Hx as [|b' x' Hb Hx']; subst. destruct (beq b NL) eqn:B.
    + apply beq_eq in B. subst b. rewrite (strip_cr_id cur Hc).
      pose proof (IH [] c Hx' (Forall_nil _) Hn) as H. cbn [app] in H.
      rewrite join_nl_cons.
      * rewrite H. reflexivity.
      * intros E. rewrite E in H. cbn [join_nl] in H. destruct x; discriminate H.
    + rewrite IH.
      * rewrite <- app_assoc. reflexivity.
      * exact Hx'.
      * apply NoB_app. split; [exact Hc | constructor; [exact Hb | constructor]].
      * exact Hn.
Qed.

Lemma split_nl_NoB_app : forall u s cur, NoB NL u -> split_nl (u ++ s) cur = split_nl s (cur ++ u).
Proof.
  induction u as [|b u IH]; intros s cur H; cbn [app].
  - rewrite app_nil_r. reflexivity.
  - inversion H as [|b' u' Hb Hu]; subst. cbn [split_nl]. apply beq_neq in Hb. rewrite Hb.
    rewrite IH by exact Hu. rewrite <- app_assoc. reflexivity.
Qed.

Lemma split_nl_app_NL : forall x y cur,
  split_nl (x ++ NL :: y) cur = split_nl x cur ++ split_nl y [].
Proof.
  induction x as [|b x IH]; intros y cur; cbn [app split_nl].
  - change (beq NL NL) with true. reflexivity.
  - destruct (beq b NL); [cbn [app]; rewrite IH; reflexivity | apply IH].
Qed.

Lemma split_nl_length : forall s cur, length (split_nl s cur) = S (count_nl s).
Proof.
  unfold count_nl. induction s as [|b s IH]; intros cur; cbn [split_nl filter]; [reflexivity|].
  destruct (beq b NL); cbn [length]; rewrite IH; reflexivity.
Qed.

(* ------------------------------------------------------------------------- *)
(** * The numbered code block *)

Fixpoint go (n : nat) (i : nat) (ls : list str) : str :=
  match n with
  | 0 => []
  | S n' => match ls with
            | l :: ls' => line_column i ++ l ++ [NL] ++ go n' (S i) ls'
            | [] => go n' (S i) []
            end
  end.

Lemma replace_tabs_app x y : replace_tabs (x ++ y) = replace_tabs x ++ replace_tabs y.
Proof. unfold replace_tabs. apply flat_map_app. Qed.

Lemma replace_tabs_NoB u : NoB TAB u -> replace_tabs u = u.
Proof.
  unfold replace_tabs. induction 1 as [|b u Hb Hu IH]; [reflexivity|].
  cbn [flat_map]. apply beq_neq in Hb. rewrite Hb, IH. reflexivity.
Qed.

(* ------------------------------------------------------------------------- *)
(** * Removing colour codes *)

Definition ESC : byte := 27%N.
Definition is_col (c : str) : Prop :=
  c = COL_GREEN \/ c = COL_RED \/ c = COL_YELLOW \/ c = COL_RESET.

Inductive Stripped : str -> str -> Prop :=
| St_nil : Stripped [] []
| St_col : forall c s t, is_col c -> Stripped s t -> Stripped (c ++ s) t
| St_byte : forall b s t, b <> ESC -> Stripped s t -> Stripped (b :: s) (b :: t).

Lemma strip_step_col f c s : is_col c -> strip_colors (S f) (c ++ s) = strip_colors f s.
Proof. intros [H|[H|[H|H]]]; subst c; reflexivity. Qed.

Lemma strip_step_byte f b s : b <> ESC -> strip_colors (S f) (b :: s) = b :: strip_colors f s.
Proof.
  intros H. assert (beq 27%N b = false) as E. { apply beq_neq. intros E. apply H. subst b. reflexivity. }
  cbn [strip_colors]. unfold COL_GREEN, COL_RED, COL_YELLOW, COL_RESET. cbn [prefix].
  rewrite !E. reflexivity.
Qed.

Lemma is_col_length c : is_col c -> 1 <= length c.
Proof. intros [H|[H|[H|H]]]; subst c; cbn; lia. Qed.

Lemma strip_colors_Stripped s t : Stripped s t -> forall f, length s <= f -> strip_colors f s = t.
Proof.
  induction 1 as [|c s t Hc Hs IH|b s t Hb Hs IH]; intros f Hf.
  - destruct f; reflexivity.
  - rewrite app_length in Hf. pose proof (is_col_length c Hc) as Hl.
    destruct f as [|f]; [lia|]. rewrite (strip_step_col f c s Hc). apply IH. lia.
  - cbn [length] in Hf. destruct f as [|f]; [lia|]. rewrite (strip_step_byte f b s Hb).
    rewrite IH by lia. reflexivity.
Qed.

Lemma Stripped_uncolored s t : Stripped s t -> uncolored s = t.
Proof. intros H. unfold uncolored. apply (strip_colors_Stripped s t H). lia. Qed.

Lemma Stripped_app s1 t1 s2 t2 : Stripped s1 t1 -> Stripped s2 t2 -> Stripped (s1 ++ s2) (t1 ++ t2).
Proof.
  induction 1 as [|c s t Hc Hs IH|b s t Hb Hs IH]; intros H2; cbn [app].
  - exact H2.
  - rewrite <- app_assoc. apply St_col; [exact Hc | apply IH; exact H2].
  - apply St_byte; [exact Hb | apply IH; exact H2].
Qed.

Lemma Stripped_plain u : NoB ESC u -> Stripped u u.
Proof. induction 1 as [|b u Hb Hu IH]; [constructor | apply St_byte; assumption]. Qed.

Lemma Stripped_col c : is_col c -> Stripped c [].
Proof. intros H. rewrite <- (app_nil_r c). apply St_col; [exact H | constructor]. Qed.

Lemma Stripped_col_app c s t : (c = [] \/ is_col c) -> Stripped s t -> Stripped (c ++ s) t.
Proof. intros [->|H] Hs; [exact Hs | apply St_col; assumption]. Qed.

Lemma is_col_NoB c b : is_col c -> (b = NL \/ b = TAB \/ b = CR) -> NoB b c.
Proof.
  intros [H|[H|[H|H]]] [Hb|[Hb|Hb]]; subst c b; repeat constructor; discriminate.
Qed.

Lemma Stripped_replace_tabs s t : Stripped s t -> Stripped (replace_tabs s) (replace_tabs t).
Proof.
  induction 1 as [|c s t Hc Hs IH|b s t Hb Hs IH].
  - constructor.
  - rewrite replace_tabs_app, (replace_tabs_NoB c) by (apply is_col_NoB; auto).
    apply St_col; assumption.
  - change (replace_tabs (b :: s)) with ((if beq b TAB then [SP; SP; SP; SP] else [b]) ++ replace_tabs s).
    change (replace_tabs (b :: t)) with ((if beq b TAB then [SP; SP; SP; SP] else [b]) ++ replace_tabs t).
    apply Stripped_app; [|exact IH]. apply Stripped_plain.
    destruct (beq b TAB); repeat constructor; try exact Hb; discriminate.
Qed.

Lemma Stripped_go n : forall i ls lt, Forall2 Stripped ls lt -> Stripped (go n i ls) (go n i lt).
Proof.
  induction n as [|n IH]; intros i ls lt H; cbn [go]; [constructor|].
  destruct H as [|l l' ls lt Hl Hls].
  - apply IH. constructor.
  - apply Stripped_app; [apply Stripped_plain, line_column_NoB; reflexivity|].
    apply Stripped_app; [exact Hl|]. apply Stripped_app; [|apply IH; exact Hls].
    apply Stripped_plain. repeat constructor. discriminate.
Qed.

Lemma Stripped_join sc rc L : (sc = [] \/ is_col sc) -> (rc = [] \/ is_col rc) ->
  Forall (NoB ESC) L ->
  Stripped (join_nl (map (fun l => sc ++ l ++ rc) L)) (join_nl (map (fun l => [] ++ l ++ []) L)).
Proof.
  intros Hsc Hrc. induction 1 as [|l L Hl HL IH]; [constructor|].
  assert (Stripped (sc ++ l ++ rc) ([] ++ l ++ [])) as H1.
  { cbn [app]. apply Stripped_col_app; [exact Hsc|]. apply Stripped_app; [apply Stripped_plain; exact Hl|].
    rewrite <- (app_nil_r rc). apply Stripped_col_app; [exact Hrc | constructor]. }
  cbn [map]. destruct L as [|l2 L]; [exact H1|].
  change (Stripped ((sc ++ l ++ rc) ++ [NL] ++ join_nl (map (fun l => sc ++ l ++ rc) (l2 :: L)))
                   (([] ++ l ++ []) ++ [NL] ++ join_nl (map (fun l => [] ++ l ++ []) (l2 :: L)))).
  apply Stripped_app; [exact H1|]. apply Stripped_app; [|exact IH].
  apply Stripped_plain. repeat constructor. discriminate.
Qed.

Lemma Stripped_app_plain u s t : NoB ESC u -> Stripped s t -> Stripped (u ++ s) (u ++ t).
Proof. intros Hu Hs. apply Stripped_app; [apply Stripped_plain; exact Hu | exact Hs]. Qed.

Lemma NoB_repeat c b n : b <> c -> NoB c (repeat b n).
Proof. intros H. apply Forall_forall. intros x Hx. apply repeat_spec in Hx. subst x. exact H. Qed.

Lemma NoB_repeat_str c s n : NoB c s -> NoB c (repeat_str s n).
Proof.
  intros H. unfold repeat_str. induction n as [|n IH]; cbn [repeat concat]; [constructor|].
  apply NoB_app. split; assumption.
Qed.

Lemma NoB_join c L : c <> NL -> Forall (NoB c) L -> NoB c (join_nl L).
Proof.
  intros Hc. induction 1 as [|l L Hl HL IH]; [constructor|].
  destruct L as [|l2 L]; [exact Hl|].
  change (NoB c (l ++ [NL] ++ join_nl (l2 :: L))).
  apply NoB_app. split; [exact Hl|]. apply NoB_app. split; [|exact IH].
  constructor; [congruence | constructor].
Qed.

Lemma slice_inv s a b v : slice s a b = Ok v -> v = sub s a b.
Proof. unfold slice. destruct (_ && _); intros H; inversion H. reflexivity. Qed.

Lemma Ok_inj {A} (a b : A) : Ok a = Ok b -> a = b.
Proof. intros H. inversion H. reflexivity. Qed.

Ltac step2 H1 H2 :=
  let v1 := fresh "v" in let E1 := fresh "E" in let v2 := fresh "w" in let E2 := fresh "F" in
  apply bind_ok in H1; destruct H1 as [v1 [E1 H1]];
  apply bind_ok in H2; destruct H2 as [v2 [E2 H2]];
  rewrite E1 in E2; inversion E2; subst v2; clear E2.

(* ------------------------------------------------------------------------- *)
(** * The line-break finders *)

Lemma boundary_of_noncont s i c : nth_error s i = Some c -> is_cont c = false -> is_boundary s i = true.
Proof. intros H Hc. unfold is_boundary. destruct i; [reflexivity|]. rewrite H, Hc. reflexivity. Qed.

Lemma check_lb_cases s c :
  (nth_error s c = Some NL /\ check_lb s c = CFound) \/
  (nth_error s c <> Some NL /\ check_lb s c <> CFound).
Proof.
  unfold check_lb. destruct (nth_error s c) as [b|] eqn:N.
  - destruct (beq b NL) eqn:B.
    + apply beq_eq in B. subst b. left. split; [reflexivity|].
      rewrite (boundary_of_noncont s c NL N eq_refl). reflexivity.
    + right. split; [intros E; inversion E; subst; discriminate B|].
      destruct (negb (is_boundary s c)); [discriminate|].
      destruct (beq b SP || beq b TAB); discriminate.
  - right. split; [discriminate|]. destruct (negb (is_boundary s c)); discriminate.
Qed.

Definition prev_start (s : str) (i : nat) : nat :=
  match find_prev_lb s i false with Some v => v + 1 | None => 0 end.
Definition next_end (s : str) (i : nat) : nat :=
  match find_next_lb s i false with Some v => v | None => length s end.

Lemma line_start_from_S : forall s k i acc,
  line_start_from k s (S i) acc =
  if i <? k then acc
  else match nth_error s (i - k) with
       | Some b => if beq b NL then S i else line_start_from k s i acc
       | None => line_start_from k s i acc
       end.
Proof.
  induction s as [|b s IH]; intros k i acc.
  - cbn [line_start_from]. destruct (i <? k); [reflexivity|]. destruct (i - k); reflexivity.
  - cbn [line_start_from]. destruct (Nat.ltb_spec i k) as [L|L].
    + destruct (Nat.leb_spec (S i) k); [reflexivity | lia].
    + destruct (Nat.leb_spec (S i) k) as [L2|L2]; [lia|].
      rewrite IH. destruct (Nat.eq_dec i k) as [->|Hne].
      * rewrite Nat.sub_diag. cbn [nth_error].
        destruct (Nat.ltb_spec k (S k)) as [_|L3]; [|lia].
        rewrite Nat.leb_refl. destruct (beq b NL); reflexivity.
      * destruct (Nat.ltb_spec i (S k)) as [L3|L3]; [lia|].
        destruct (Nat.leb_spec i k) as [L4|L4]; [lia|].
        replace (i - k) with (S (i - S k)) by lia. cbn [nth_error]. reflexivity.
Qed.

Lemma line_start_of_0 s : line_start_of s 0 = 0.
Proof. unfold line_start_of. destruct s; reflexivity. Qed.

Lemma line_start_of_S s i :
  line_start_of s (S i) =
  match nth_error s i with
  | Some b => if beq b NL then S i else line_start_of s i
  | None => line_start_of s i
  end.
Proof.
  unfold line_start_of. rewrite line_start_from_S. rewrite Nat.sub_0_r. reflexivity.
Qed.

Lemma find_prev_lb_S s c : c < length s ->
  find_prev_lb s (S c) false =
  match nth_error s c with
  | Some b => if beq b NL then Some c else find_prev_lb s c false
  | None => find_prev_lb s c false
  end.
Proof.
  intros Hc. cbn [find_prev_lb]. destruct (Nat.leb_spec (length s) c) as [L|_]; [lia|].
  destruct (check_lb_cases s c) as [[H1 H2]|[H1 H2]].
  - rewrite H1, H2. reflexivity.
  - destruct (nth_error s c) as [b|] eqn:N.
    + destruct (beq b NL) eqn:B; [apply beq_eq in B; subst; congruence|].
      destruct (check_lb s c); [reflexivity | congruence | reflexivity].
    + destruct (check_lb s c); [reflexivity | congruence | reflexivity].
Qed.

(** the model's line start is the specification's *)
Lemma prev_start_line_start s : forall i, i <= length s -> prev_start s i = line_start_of s i.
Proof.
  unfold prev_start. induction i as [|i IH]; intros Hi.
  - rewrite line_start_of_0. reflexivity.
  - rewrite find_prev_lb_S by lia. rewrite line_start_of_S.
    destruct (nth_error s i) as [b|]; [|apply IH; lia].
    destruct (beq b NL); [lia | apply IH; lia].
Qed.

Lemma line_start_of_spec s : forall i,
  line_start_of s i <= i /\
  (line_start_of s i = 0 \/ nth_error s (line_start_of s i - 1) = Some NL) /\
  (forall j, line_start_of s i <= j < i -> nth_error s j <> Some NL).
Proof.
  induction i as [|i (IH1 & IH2 & IH3)].
  - rewrite line_start_of_0. split; [lia|]. split; [left; reflexivity | intros j Hj; lia].
  - rewrite line_start_of_S. destruct (nth_error s i) as [b|] eqn:N.
    + destruct (beq b NL) eqn:B.
      * apply beq_eq in B. subst b. split; [lia|]. split; [|intros j Hj; lia].
        right. replace (S i - 1) with i by lia. exact N.
      * split; [lia|]. split; [exact IH2|]. intros j Hj.
        destruct (Nat.eq_dec j i) as [->|Hne]; [|apply IH3; lia].
        rewrite N. intros E. inversion E; subst. discriminate B.
    + split; [lia|]. split; [exact IH2|]. intros j Hj.
      destruct (Nat.eq_dec j i) as [->|Hne]; [|apply IH3; lia]. rewrite N. discriminate.
Qed.

Lemma find_next_lb_loop_spec : forall fuel s cur,
  length s - cur < fuel -> cur <= length s ->
  let r := match find_next_lb_loop fuel s cur false with Some v => v | None => length s end in
  cur <= r /\ r <= length s /\
  (r = length s \/ nth_error s r = Some NL) /\
  (forall j, cur <= j < r -> nth_error s j <> Some NL).
Proof.
  induction fuel as [|f IH]; intros s cur Hf Hc; [lia|].
  cbn [find_next_lb_loop]. destruct (Nat.leb_spec (length s) cur) as [L|L].
  - cbv zeta. split; [lia|]. split; [lia|]. split; [left; reflexivity | intros j Hj; lia].
  - assert (length s - S cur < f) as Hf' by lia. assert (S cur <= length s) as Hc' by lia.
    specialize (IH s (S cur) Hf' Hc'). cbv zeta in IH. destruct IH as (I1 & I2 & I3 & I4).
    destruct (check_lb_cases s cur) as [[H1 H2]|[H1 H2]].
    + rewrite H2. cbv zeta. split; [lia|]. split; [lia|]. split; [right; exact H1 | intros j Hj; lia].
    + assert ((match check_lb s cur with
               | CSkip => find_next_lb_loop f s (S cur) false
               | CFound => Some cur
               | CNone => if false then None else find_next_lb_loop f s (S cur) false
               end) = find_next_lb_loop f s (S cur) false) as E.
      { destruct (check_lb s cur); [reflexivity | congruence | reflexivity]. }
      rewrite E. cbv zeta. split; [lia|]. split; [exact I2|]. split; [exact I3|].
      intros j Hj. destruct (Nat.eq_dec j cur) as [->|Hne]; [exact H1 | apply I4; lia].
Qed.

Lemma next_end_spec s i : i <= length s ->
  i <= next_end s i /\ next_end s i <= length s /\
  (next_end s i = length s \/ nth_error s (next_end s i) = Some NL) /\
  (forall j, i <= j < next_end s i -> nth_error s j <> Some NL).
Proof.
  intros Hi. unfold next_end, find_next_lb.
  apply (find_next_lb_loop_spec (S (length s - i)) s i); lia.
Qed.

(* ------------------------------------------------------------------------- *)
(** * Boundaries of line starts and line ends *)

Lemma line_start_boundary s i : WF s -> i <= length s -> is_boundary s (line_start_of s i) = true.
Proof.
  intros Hwf Hi. destruct (line_start_of_spec s i) as (H1 & [H2|H2] & _).
  - rewrite H2. reflexivity.
  - destruct (Nat.eq_dec (line_start_of s i) 0) as [E|E]; [rewrite E; reflexivity|].
    apply wf_utf8_WF in Hwf.
    destruct (wf_next_char_boundary s (line_start_of s i - 1) NL Hwf) as [_ Hb].
    + apply (boundary_of_noncont _ _ NL H2). reflexivity.
    + exact H2.
    + change (char_len NL) with 1 in Hb.
      replace (line_start_of s i - 1 + 1) with (line_start_of s i) in Hb by lia. exact Hb.
Qed.

Lemma next_end_boundary s i : i <= length s -> is_boundary s (next_end s i) = true.
Proof.
  intros Hi. destruct (next_end_spec s i Hi) as (_ & _ & [H|H] & _).
  - rewrite H. apply is_boundary_length.
  - apply (boundary_of_noncont _ _ NL H). reflexivity.
Qed.

Lemma slice_ok s a b : a <= b -> b <= length s -> is_boundary s a = true -> is_boundary s b = true ->
  slice s a b = Ok (sub s a b).
Proof.
  intros H1 H2 H3 H4. unfold slice. rewrite H3, H4.
  destruct (Nat.leb_spec a b); [|lia]. destruct (Nat.leb_spec b (length s)); [|lia]. reflexivity.
Qed.

(* ------------------------------------------------------------------------- *)
(** * Tabs, spaces, and the numbered lines *)

Lemma count_tabspace_app x y : count_tabspace (x ++ y) = count_tabspace x + count_tabspace y.
Proof. unfold count_tabspace. rewrite filter_app, app_length. reflexivity. Qed.

Lemma count_tabspace_le u : count_tabspace u <= length u.
Proof.
  unfold count_tabspace. induction u as [|b u IH]; [reflexivity|].
  cbn [filter]. destruct (beq b TAB); cbn [length]; lia.
Qed.

Lemma replace_tabs_length u : length (replace_tabs u) = length u + 3 * count_tabspace u.
Proof.
  unfold replace_tabs, count_tabspace. induction u as [|b u IH]; [reflexivity|].
  cbn [flat_map filter]. rewrite app_length, IH. destruct (beq b TAB); cbn [length]; lia.
Qed.

Lemma repeat_str_sp t : repeat_str [SP; SP; SP; SP] t = repeat SP (4 * t).
Proof.
  unfold repeat_str. induction t as [|t IH]; [reflexivity|].
  cbn [repeat concat]. rewrite IH. replace (4 * S t) with (4 + 4 * t) by lia. reflexivity.
Qed.

Lemma spaces_eq t m k rest : 4 * t + m = k ->
  repeat_str [SP; SP; SP; SP] t ++ repeat SP m ++ rest = repeat SP k ++ rest.
Proof. intros <-. rewrite repeat_str_sp, repeat_app, <- app_assoc. reflexivity. Qed.

Lemma map_wrap_nil (L : list str) : map (fun l : str => [] ++ l ++ []) L = L.
Proof.
  rewrite (map_ext _ (fun l => l)); [apply map_id|]. intros l. cbn [app]. apply app_nil_r.
Qed.

Lemma go_flat : forall L i,
  go (length L) i L = flat_map (fun k => line_column k ++ nth (k - i) L [] ++ [NL]) (seq i (length L)).
Proof.
  induction L as [|l L IH]; intros i; [reflexivity|].
  cbn [length go seq flat_map]. rewrite Nat.sub_diag. cbn [nth]. rewrite <- !app_assoc.
  do 3 f_equal. rewrite IH. apply flat_map_ext_in. intros k Hk. apply in_seq in Hk.
  replace (k - i) with (S (k - S i)) by lia. reflexivity.
Qed.

Lemma replace_tabs_flat_map {A} (f : A -> str) l :
  replace_tabs (flat_map f l) = flat_map (fun k => replace_tabs (f k)) l.
Proof.
  induction l as [|x l IH]; [reflexivity|]. cbn [flat_map]. rewrite replace_tabs_app, IH. reflexivity.
Qed.

Lemma split_nl_decomp P T Q :
  (P = [] \/ exists P', P = P' ++ [NL]) -> (Q = [] \/ exists Q', Q = NL :: Q') ->
  exists LP LQ, split_nl (P ++ T ++ Q) [] = LP ++ split_nl T [] ++ LQ /\ length LP = count_nl P.
Proof.
  intros HP HQ.
  assert (exists LQ, split_nl (T ++ Q) [] = split_nl T [] ++ LQ) as [LQ EQ].
  { destruct HQ as [->|[Q' ->]]; [exists []; rewrite !app_nil_r; reflexivity|].
    exists (split_nl Q' []). apply split_nl_app_NL. }
  destruct HP as [->|[P' ->]].
  - exists [], LQ. split; [exact EQ | reflexivity].
  - exists (split_nl P' []), LQ. split.
    + rewrite <- app_assoc. cbn [app]. rewrite split_nl_app_NL, EQ. reflexivity.
    + rewrite split_nl_length, count_nl_app. change (count_nl [NL]) with 1. lia.
Qed.

(* ------------------------------------------------------------------------- *)
(** * The plain item *)

(** the plain item is the specification *)
Theorem build_item_plain : forall content a b first last is_removal,
  wf_utf8 content = true ->
  a < b -> b <= length content ->
  is_boundary content a = true -> is_boundary content b = true ->
  (forall i, nth_error content i <> Some CR) ->                 (* no carriage return in the source *)
  nth_error content a <> Some NL -> nth_error content (b - 1) <> Some NL ->
  nth_error content (b - 1) <> Some TAB ->
  get_line_range (build_line_map content) (a, b) = Ok (first, last) ->
  build_item content a b is_removal false (Some (first, last)) = Ok (expected_item content a b first last).
Proof.
  intros content a b first last is_removal Hwf Hab Hb Ba Bb Hcr Hna Hnb Htab Hlr.
  destruct (line_range_spec content a b first last Hab Hb Hna Hnb Hlr) as (Hf & Hl & Hfl).
  assert (WF content) as HW by (apply wf_utf8_WF; exact Hwf).
  apply NoB_of_nth in Hcr.
  unfold build_item. cbv beta iota zeta.
  rewrite (csub_le b a) by lia. cbn [bind].
  match goal with |- (if ?c then _ else _) = _ => assert (c = false) as E0 end.
  { destruct content; [cbn [length] in Hb; lia|]. rewrite orb_false_r. apply Nat.eqb_neq. lia. }
  rewrite E0. clear E0.
  rewrite (csub_le b 1) by lia. cbn [bind].
  fold (prev_start content a) (prev_start content (b - 1)) (next_end content (b - 1)).
  rewrite (prev_start_line_start content a) by lia.
  rewrite (prev_start_line_start content (b - 1)) by lia.
  unfold expected_item.
  pose proof (line_start_boundary content a HW ltac:(lia)) as Bls.
  pose proof (line_start_boundary content (b - 1) HW ltac:(lia)) as Bles.
  destruct (line_start_of_spec content a) as (A1 & A2 & A3).
  destruct (line_start_of_spec content (b - 1)) as (B1 & B2 & B3).
  destruct (next_end_spec content (b - 1) ltac:(lia)) as (N1 & N2 & N3 & N4).
  pose proof (next_end_boundary content (b - 1) ltac:(lia)) as N5.
  set (ls := line_start_of content a) in *.
  set (les := line_start_of content (b - 1)) in *.
  set (le := next_end content (b - 1)) in *.
  assert (b <= le) as N6.
  { destruct (Nat.eq_dec le (b - 1)) as [E|E]; [|lia]. exfalso.
    destruct N3 as [N3|N3]; [lia|]. rewrite E in N3. exact (Hnb N3). }
  destruct (nth_error_lt_Some content (b - 1) ltac:(lia)) as [cl Hcl].
  assert (cl <> NL) as Hcl1 by (intros ->; exact (Hnb Hcl)).
  assert (cl <> TAB) as Hcl2 by (intros ->; exact (Htab Hcl)).
  rewrite (Nat.min_l b le) by lia.
  rewrite (csub_le le ls) by lia. cbn [bind].
  rewrite (slice_ok content a b) by (assumption || lia). cbn [bind].
  rewrite (slice_ok content ls a) by (assumption || lia). cbn [bind].
  rewrite (slice_ok content b le) by (assumption || lia). cbn [bind].
  rewrite (csub_le a ls) by lia. cbn [bind].
  rewrite (csub_le b les) by lia. cbn [bind].
  rewrite (csub_le (b - les) 1) by lia. cbn [bind].
  rewrite (slice_ok content les b) by (assumption || lia). cbn [bind].
  assert (LINE_COLUMN_WIDTH = 9) as HLCW by reflexivity.
  pose proof (count_tabspace_le (sub content ls a)) as T1.
  rewrite (sub_length content ls a) in T1 by lia.
  pose proof (count_tabspace_le (sub content les b)) as T2.
  rewrite (sub_length content les b) in T2 by lia.
  rewrite (csub_le (LINE_COLUMN_WIDTH + (a - ls))) by lia. cbn [bind].
  rewrite (csub_le (b - les - 1 + LINE_COLUMN_WIDTH)) by lia. cbn [bind].
  f_equal.
  (* the coloured part is unchanged *)
  pose proof (sub_one content (b - 1) cl Hcl) as Hlast.
  replace (S (b - 1)) with b in Hlast by lia.
  assert (sub content a b = sub content a (b - 1) ++ [cl]) as Hsub.
  { rewrite <- (sub_app content a (b - 1) b) by lia. rewrite Hlast. reflexivity. }
  assert (join_nl (lines (sub content a b)) = sub content a b) as Hjoin.
  { unfold lines. rewrite Hsub. rewrite join_lines_loop_snoc; [reflexivity | | constructor | exact Hcl1].
    apply Forall_sub. exact Hcr. }
  rewrite map_wrap_nil, Hjoin.
  set (T := sub content ls le).
  assert (sub content ls a ++ sub content a b ++ sub content b le ++ [NL] = T ++ [NL]) as Hrem.
  { unfold T. rewrite <- (sub_app content ls a le), <- (sub_app content a b le) by lia.
    rewrite <- !app_assoc. reflexivity. }
  rewrite Hrem. rewrite (lines_snoc_NL T) by (apply Forall_sub; exact Hcr).
  match goal with |- context [replace_tabs (?g ?n ?i ?L)] => change (g n i L) with (go n i L) end.
  (* line counts *)
  assert (count_nl (firstn a content) = count_nl (firstn ls content)) as C1.
  { rewrite (firstn_sub content ls a) by lia. rewrite count_nl_app.
    rewrite (count_nl_NoB (sub content ls a)); [lia|]. apply sub_NoB. exact A3. }
  assert (count_nl (firstn le content) = count_nl (firstn (b - 1) content)) as C2.
  { rewrite (firstn_sub content (b - 1) le) by lia. rewrite count_nl_app.
    rewrite (count_nl_NoB (sub content (b - 1) le)); [lia|]. apply sub_NoB. exact N4. }
  assert (count_nl (firstn le content) = count_nl (firstn ls content) + count_nl T) as C3.
  { rewrite (firstn_sub content ls le) by lia. apply count_nl_app. }
  assert (S last - first = length (split_nl T [])) as C4 by (rewrite split_nl_length; lia).
  rewrite C4, go_flat, replace_tabs_flat_map, <- C4.
  (* the source lines *)
  assert (exists LP LQ, source_lines content = LP ++ split_nl T [] ++ LQ /\ length LP = first - 1)
    as (LP & LQ & HS & HLP).
  { destruct (split_nl_decomp (firstn ls content) T (skipn le content)) as (LP & LQ & H1 & H2).
    - destruct A2 as [A2|A2]; [left; rewrite A2; reflexivity|].
      destruct (Nat.eq_dec ls 0) as [E|E]; [left; rewrite E; reflexivity|]. right.
      exists (firstn (ls - 1) content). replace ls with (S (ls - 1)) at 1 by lia.
      apply firstn_S_nth. exact A2.
    - destruct N3 as [N3|N3]; [left; rewrite N3; apply skipn_all|]. right.
      apply nth_skipn_cons in N3. destruct N3 as [tl E]. exists tl. exact E.
    - exists LP, LQ. split; [|lia]. unfold source_lines. rewrite <- H1. f_equal.
      unfold T. rewrite app_assoc, <- (firstn_sub content ls le) by lia.
      symmetry. apply firstn_skipn. }
  assert (flat_map (fun k => replace_tabs (line_column k ++ nth (k - first) (split_nl T []) [] ++ [NL]))
                   (seq first (S last - first)) =
          flat_map (fun k => line_column k ++ replace_tabs (nth_line content k) ++ [NL])
                   (seq first (S last - first))) as Hfm.
  { apply flat_map_ext_in. intros k Hk. apply in_seq in Hk.
    rewrite !replace_tabs_app.
    rewrite (replace_tabs_NoB (line_column k)) by (apply line_column_NoB; reflexivity).
    change (replace_tabs [NL]) with [NL].
    unfold nth_line. rewrite HS. rewrite app_nth2 by lia. rewrite app_nth1 by lia.
    replace (k - 1 - length LP) with (k - first) by lia. reflexivity. }
  rewrite Hfm. clear Hfm.
  (* markers *)
  unfold marker_line. rewrite !app_nil_l, app_nil_r, <- !app_assoc.
  assert (count_tabspace (sub content les b) = count_tabspace (sub content les (b - 1))) as T3.
  { assert (count_tabspace [cl] = 0) as T0.
    { unfold count_tabspace. cbn [filter]. apply beq_neq in Hcl2. rewrite Hcl2. reflexivity. }
    rewrite <- (sub_app content les (b - 1) b) by lia. rewrite Hlast, count_tabspace_app, T0. lia. }
  rewrite (spaces_eq _ _ (LINE_COLUMN_WIDTH + length (replace_tabs (sub content ls a)))).
  2:{ rewrite replace_tabs_length, sub_length by lia. lia. }
  do 4 f_equal.
  apply spaces_eq.
  rewrite replace_tabs_length, sub_length by lia. rewrite T3 in *.
  pose proof (count_tabspace_le (sub content les (b - 1))) as T4.
  rewrite sub_length in T4 by lia. lia.
Qed.

(* ------------------------------------------------------------------------- *)
(** * Carriage returns: [lines] in general *)

(** [endst p t]: does [t] end with a carriage return ([p] when [t] is empty)? *)
Fixpoint endst (p : bool) (t : str) : bool :=
  match t with [] => p | b :: t' => endst (beq b CR) t' end.

Lemma endst_app p u v : endst p (u ++ v) = endst (endst p u) v.
Proof. revert p. induction u as [|b u IH]; intros p; [reflexivity | apply IH]. Qed.

Lemma endst_snoc p u b : endst p (u ++ [b]) = beq b CR.
Proof. rewrite endst_app. reflexivity. Qed.

Lemma snoc_cases (l : str) : l = [] \/ exists u b, l = u ++ [b].
Proof.
  destruct l as [|x l]; [left; reflexivity|]. right.
  destruct (exists_last (l := x :: l)) as (u & b & E); [discriminate|]. exists u, b. exact E.
Qed.

Lemma strip_cr_snoc u b : strip_cr (u ++ [b]) = if beq b CR then u else u ++ [b].
Proof. unfold strip_cr. rewrite rev_unit. destruct (beq b CR); [apply rev_involutive | reflexivity]. Qed.

Lemma strip_cr_noend l : endst false l = false -> strip_cr l = l.
Proof.
  destruct (snoc_cases l) as [->|(u & b & ->)]; [reflexivity|].
  rewrite endst_snoc, strip_cr_snoc. intros ->. reflexivity.
Qed.

Lemma strip_cr_cases l : (strip_cr l = l /\ endst false l = false) \/ l = strip_cr l ++ [CR].
Proof.
  destruct (snoc_cases l) as [->|(u & b & ->)]; [left; split; reflexivity|].
  rewrite strip_cr_snoc, endst_snoc. destruct (beq b CR) eqn:B.
  - right. apply beq_eq in B. subst b. reflexivity.
  - left. split; reflexivity.
Qed.

Lemma lines_loop_snoc_NL_gen : forall s cur,
  lines_loop (s ++ [NL]) cur = map strip_cr (split_nl s cur).
Proof.
  induction s as [|b s IH]; intros cur; cbn [app lines_loop split_nl].
  - change (beq NL NL) with true. reflexivity.
  - destruct (beq b NL); [cbn [map]; rewrite IH; reflexivity | apply IH].
Qed.

(** every carriage return is followed by a line break *)
Fixpoint crnl (s : str) : Prop :=
  match s with
  | [] => True
  | b :: s' => (b = CR -> exists s'', s' = NL :: s'') /\ crnl s'
  end.

Lemma crnl_suffix u v : crnl (u ++ v) -> crnl v.
Proof. induction u as [|b u IH]; [auto|]. cbn [app crnl]. intros [_ H]. apply IH, H. Qed.

Lemma crnl_mid u v : crnl (u ++ v) -> endst false u = true -> exists v', v = NL :: v'.
Proof.
  destruct (snoc_cases u) as [->|(u' & b & ->)]; [discriminate|].
  rewrite endst_snoc, <- app_assoc. intros H B. apply beq_eq in B. subst b.
  apply crnl_suffix in H. cbn [app crnl] in H. destruct H as [H _]. apply H. reflexivity.
Qed.

Lemma crnl_noend t : crnl t -> endst false t = false.
Proof.
  intros H. destruct (endst false t) eqn:E; [|reflexivity].
  rewrite <- (app_nil_r t) in H. destruct (crnl_mid t [] H E) as [v' Hv]. discriminate Hv.
Qed.

Lemma lines_loop_noend : forall s cur, crnl (cur ++ s) ->
  Forall (fun l => endst false l = false) (lines_loop s cur).
Proof.
  induction s as [|b s IH]; intros cur H; cbn [lines_loop].
  - rewrite app_nil_r in H. destruct cur as [|c cur']; constructor; [|constructor].
    apply crnl_noend. exact H.
  - destruct (beq b NL) eqn:B.
    + apply beq_eq in B. subst b. constructor.
      * destruct (strip_cr_cases cur) as [[E1 E2]|E]; [rewrite E1; exact E2|].
        destruct (endst false (strip_cr cur)) eqn:En; [|reflexivity].
        rewrite E, <- app_assoc in H. destruct (crnl_mid _ _ H En) as [v' Hv]. discriminate Hv.
      * apply IH. cbn [app]. apply (crnl_suffix (cur ++ [NL])). rewrite <- app_assoc. exact H.
    + apply IH. rewrite <- app_assoc. exact H.
Qed.

Lemma sub_cons s a b c : a < b -> nth_error s a = Some c -> sub s a b = c :: sub s (S a) b.
Proof.
  intros Hab Hn. unfold sub. apply nth_skipn_cons in Hn. destruct Hn as [tl E].
  rewrite E, (skipn_S_tl s a c tl E). replace (b - a) with (S (b - S a)) by lia. reflexivity.
Qed.

Lemma crnl_sub s :
  (forall i, nth_error s i = Some CR -> nth_error s (S i) = Some NL) ->
  forall n a, a + n <= length s -> (n = 0 \/ nth_error s (a + n - 1) <> Some CR) ->
  crnl (sub s a (a + n)).
Proof.
  intros Hs. induction n as [|n IH]; intros a Hl He.
  - unfold sub. replace (a + 0 - a) with 0 by lia. exact I.
  - destruct (nth_error_lt_Some s a ltac:(lia)) as [c Hc].
    rewrite (sub_cons s a (a + S n) c) by (assumption || lia).
    replace (a + S n) with (S a + n) in * by lia. split.
    + intros ->. pose proof (Hs a Hc) as Hnl.
      destruct n as [|n].
      * exfalso. destruct He as [He|He]; [discriminate|]. apply He.
        replace (S a + 0 - 1) with a by lia. exact Hc.
      * rewrite (sub_cons s (S a) (S a + S n) NL) by (assumption || lia). eexists. reflexivity.
    + apply IH; [lia|]. destruct n as [|n]; [left; reflexivity|]. right.
      destruct He as [He|He]; [discriminate|]. exact He.
Qed.

(** the colour relation refined so that no colour code directly follows a carriage return *)
Inductive SC : bool -> str -> str -> Prop :=
| SC_nil : forall p, SC p [] []
| SC_col : forall c s t, is_col c -> SC false s t -> SC false (c ++ s) t
| SC_byte : forall p b s t, b <> ESC -> SC (beq b CR) s t -> SC p (b :: s) (b :: t).

Lemma SC_app p s1 t1 s2 t2 : SC p s1 t1 -> SC (endst p t1) s2 t2 -> SC p (s1 ++ s2) (t1 ++ t2).
Proof.
  induction 1 as [p|c s t Hc Hs IH|p b s t Hb Hs IH]; intros H2; cbn [app].
  - exact H2.
  - rewrite <- app_assoc. apply SC_col; [exact Hc | apply IH; exact H2].
  - apply SC_byte; [exact Hb | apply IH; exact H2].
Qed.

Lemma SC_plain u : NoB ESC u -> forall p, SC p u u.
Proof. induction 1 as [|b u Hb Hu IH]; intros p; [constructor | apply SC_byte; [exact Hb | apply IH]]. Qed.

Lemma SC_col_nil c : is_col c -> SC false c [].
Proof. intros H. rewrite <- (app_nil_r c). apply SC_col; [exact H | constructor]. Qed.

Lemma SC_wrap sc rc l : is_col sc -> is_col rc -> NoB ESC l -> endst false l = false ->
  SC false (sc ++ l ++ rc) ([] ++ l ++ []).
Proof.
  intros Hsc Hrc Hl He. cbn [app]. apply SC_col; [exact Hsc|].
  apply SC_app; [apply SC_plain; exact Hl|]. rewrite He. apply SC_col_nil. exact Hrc.
Qed.

Lemma SC_join sc rc L : is_col sc -> is_col rc ->
  Forall (NoB ESC) L -> Forall (fun l => endst false l = false) L ->
  SC false (join_nl (map (fun l => sc ++ l ++ rc) L)) (join_nl (map (fun l => [] ++ l ++ []) L)).
Proof.
  intros Hsc Hrc H1. induction H1 as [|l L Hl HL IH]; intros H2; [constructor|].
  inversion H2 as [|l' L' He HE]; subst.
  pose proof (SC_wrap sc rc l Hsc Hrc Hl He) as Hw.
  cbn [map]. destruct L as [|l2 L]; [exact Hw|].
  change (SC false ((sc ++ l ++ rc) ++ [NL] ++ join_nl (map (fun l => sc ++ l ++ rc) (l2 :: L)))
                   (([] ++ l ++ []) ++ [NL] ++ join_nl (map (fun l => [] ++ l ++ []) (l2 :: L)))).
  apply SC_app; [exact Hw|]. cbn [app]. apply SC_byte; [discriminate|]. apply IH. exact HE.
Qed.

Definition Inv (p : bool) (cs ct : str) : Prop :=
  if p then exists cs' ct', cs = cs' ++ [CR] /\ ct = ct' ++ [CR] /\ Stripped cs' ct'
  else Stripped cs ct /\ strip_cr cs = cs /\ strip_cr ct = ct.

Lemma Stripped_snoc cs ct b : b <> ESC -> Stripped cs ct -> Stripped (cs ++ [b]) (ct ++ [b]).
Proof. intros Hb H. apply Stripped_app; [exact H | apply St_byte; [exact Hb | constructor]]. Qed.

Lemma Inv_Stripped p cs ct : Inv p cs ct -> Stripped cs ct.
Proof.
  destruct p; cbn [Inv].
  - intros (cs' & ct' & -> & -> & H). apply Stripped_snoc; [discriminate | exact H].
  - intros [H _]. exact H.
Qed.

Lemma Inv_strip p cs ct : Inv p cs ct -> Stripped (strip_cr cs) (strip_cr ct).
Proof.
  destruct p; cbn [Inv].
  - intros (cs' & ct' & -> & -> & H). rewrite !strip_cr_snoc. exact H.
  - intros (H & -> & ->). exact H.
Qed.

Lemma is_col_endst c p : is_col c -> endst p c = false.
Proof. intros [H|[H|[H|H]]]; subst c; reflexivity. Qed.

Lemma SC_lines p s t : SC p s t -> forall cs ct, Inv p cs ct ->
  Forall2 Stripped (map strip_cr (split_nl s cs)) (map strip_cr (split_nl t ct)).
Proof.
  induction 1 as [p|c s t Hc Hs IH|p b s t Hb Hs IH]; intros cs ct HI.
  - cbn [split_nl map]. constructor; [apply (Inv_strip p); exact HI | constructor].
  - rewrite split_nl_NoB_app by (apply is_col_NoB; auto). apply IH.
    destruct HI as (H1 & H2 & H3). split; [|split; [|exact H3]].
    + rewrite <- (app_nil_r ct). apply Stripped_app; [exact H1 | apply Stripped_col; exact Hc].
    + apply strip_cr_noend. rewrite endst_app. apply is_col_endst. exact Hc.
  - cbn [split_nl]. destruct (beq b NL) eqn:B.
    + apply beq_eq in B. subst b. cbn [map]. constructor; [apply (Inv_strip p); exact HI|].
      apply IH. change (beq NL CR) with false. split; [constructor | split; reflexivity].
    + apply IH. pose proof (Inv_Stripped p cs ct HI) as HS. destruct (beq b CR) eqn:C.
      * apply beq_eq in C. subst b. exists cs, ct. auto.
      * split; [apply Stripped_snoc; assumption|]. rewrite !strip_cr_snoc, C. split; reflexivity.
Qed.

(** the numbered lines of the coloured and of the plain text correspond *)
Lemma removed_lines_Stripped sc bef col aft :
  is_col sc -> NoB ESC bef -> NoB ESC col -> NoB ESC aft ->
  endst false bef = false -> crnl col ->
  Forall2 Stripped
    (lines (bef ++ join_nl (map (fun l => sc ++ l ++ COL_RESET) (lines col)) ++ aft ++ [NL]))
    (lines (bef ++ join_nl (map (fun l => [] ++ l ++ []) (lines col)) ++ aft ++ [NL])).
Proof.
  intros Hsc Hb Hc Ha Hbe Hcr.
  assert (is_col COL_RESET) as Hr by (right; right; right; reflexivity).
  rewrite !app_assoc. unfold lines at 1 3. rewrite !lines_loop_snoc_NL_gen.
  apply (SC_lines false); [|split; [constructor | split; reflexivity]].
  apply SC_app; [|apply SC_plain; exact Ha].
  apply SC_app; [apply SC_plain; exact Hb|]. rewrite Hbe.
  apply SC_join; [exact Hsc | exact Hr | apply lines_Forall; exact Hc|].
  apply lines_loop_noend. exact Hcr.
Qed.

Lemma slice_inv' s a b v : slice s a b = Ok v -> v = sub s a b /\ a <= b /\ b <= length s.
Proof.
  unfold slice. destruct (Nat.leb_spec a b) as [L1|L1]; [|discriminate].
  destruct (Nat.leb_spec b (length s)) as [L2|L2]; [|discriminate].
  destruct (_ && _); intros H; inversion H. auto.
Qed.

(** Without a line range no line is re-split: no condition on carriage returns. *)
Lemma build_item_uncolored_no_range : forall content a b is_removal x y,
  (forall i, nth_error content i <> Some 27%N) ->
  build_item content a b is_removal true None = Ok x ->
  build_item content a b is_removal false None = Ok y ->
  uncolored x = y.
Proof.
  intros content a b is_removal x y Hesc H1 H2.
  apply NoB_of_nth in Hesc. fold ESC in Hesc.
  apply Stripped_uncolored.
  unfold build_item in H1, H2.
  assert (is_col (if is_removal then COL_RED else COL_YELLOW)) as Hsc.
  { destruct is_removal; [right; left; reflexivity | right; right; left; reflexivity]. }
  set (sc := if is_removal then COL_RED else COL_YELLOW) in *.
  assert (is_col COL_GREEN) as Hg by (left; reflexivity).
  assert (is_col COL_RESET) as Hr by (right; right; right; reflexivity).
  assert (NoB ESC [NL]) as Hnl by (repeat constructor; discriminate).
  assert (forall n, NoB ESC (repeat_str [SP; SP; SP; SP] n)) as Hrs.
  { intros n. apply NoB_repeat_str. repeat constructor; discriminate. }
  assert (forall n, NoB ESC (repeat SP n)) as Hrp by (intros n; apply NoB_repeat; discriminate).
  assert (NoB ESC MARKER_START) as Hms by (repeat constructor; discriminate).
  assert (NoB ESC MARKER_END) as Hme by (repeat constructor; discriminate).
  cbv beta iota zeta in H1, H2.
  step2 H1 H2.
  match type of H1 with (if ?c then _ else _) = _ => revert H1 H2; destruct c; intros H1 H2 end.
  { inversion H1; inversion H2; subst. constructor. }
  repeat step2 H1 H2.
  repeat match goal with E : slice _ _ _ = Ok _ |- _ => apply slice_inv in E end.
  apply Ok_inj in H1. apply Ok_inj in H2. rewrite !app_nil_l in H2. subst.
  apply Stripped_app_plain; [apply Hrs|]. apply Stripped_app_plain; [apply Hrp|].
  apply St_col; [exact Hg|]. apply Stripped_app_plain; [exact Hms|].
  apply St_col; [exact Hr|]. apply Stripped_app_plain; [exact Hnl|].
  apply Stripped_app.
  - apply Stripped_replace_tabs.
    apply Stripped_app_plain; [apply Forall_sub; exact Hesc|].
    apply Stripped_app.
    + apply Stripped_join; [right; exact Hsc | right; exact Hr|].
      apply lines_Forall. apply Forall_sub. exact Hesc.
    + apply Stripped_plain. apply NoB_app. split; [apply Forall_sub; exact Hesc | exact Hnl].
  - apply Stripped_app_plain; [apply Hrs|]. apply Stripped_app_plain; [apply Hrp|].
    apply St_col; [exact Hg|]. apply Stripped_app_plain; [exact Hme|].
    apply Stripped_col. exact Hr.
Qed.

(** General form: carriage returns are allowed as part of CR LF pairs, provided the region neither
    starts at the LF of such a pair, nor ends at its CR or at its LF. *)
Theorem build_item_uncolored_crlf : forall content a b lr is_removal x y,
  (forall i, nth_error content i <> Some 27%N) ->               (* no ESC byte in the source *)
  (forall i, nth_error content i = Some CR ->
             nth_error content (S i) = Some NL /\ S i <> a /\ S i <> b /\ S (S i) <> b) ->
  build_item content a b is_removal true lr = Ok x ->
  build_item content a b is_removal false lr = Ok y ->
  uncolored x = y.
Proof.
  intros content a b lr is_removal x y Hesc Hcrlf H1 H2. change str in (type of content).
  destruct lr as [[p q]|]; [|apply (build_item_uncolored_no_range content a b is_removal); assumption].
  apply NoB_of_nth in Hesc. fold ESC in Hesc.
  apply Stripped_uncolored.
  unfold build_item in H1, H2.
  assert (is_col (if is_removal then COL_RED else COL_YELLOW)) as Hsc.
  { destruct is_removal; [right; left; reflexivity | right; right; left; reflexivity]. }
  set (sc := if is_removal then COL_RED else COL_YELLOW) in *.
  assert (is_col COL_GREEN) as Hg by (left; reflexivity).
  assert (is_col COL_RESET) as Hr by (right; right; right; reflexivity).
  assert (NoB ESC [NL]) as Hnl by (repeat constructor; discriminate).
  assert (forall n, NoB ESC (repeat_str [SP; SP; SP; SP] n)) as Hrs.
  { intros n. apply NoB_repeat_str. repeat constructor; discriminate. }
  assert (forall n, NoB ESC (repeat SP n)) as Hrp by (intros n; apply NoB_repeat; discriminate).
  assert (NoB ESC MARKER_START) as Hms by (repeat constructor; discriminate).
  assert (NoB ESC MARKER_END) as Hme by (repeat constructor; discriminate).
  cbv beta iota zeta in H1, H2.
  step2 H1 H2.
  match type of H1 with (if ?c then _ else _) = _ => revert H1 H2; destruct c; intros H1 H2 end.
  { inversion H1; inversion H2; subst. constructor. }
  repeat step2 H1 H2.
  match goal with E : csub b 1 = Ok ?e |- _ => apply csub_ok in E; destruct E as [Hb1 ->] end.
  fold (next_end content (b - 1)) in *.
  match goal with E : slice content _ b = Ok _ |- _ =>
    destruct (slice_inv' _ _ _ _ E) as (_ & _ & Hblen) end.
  match goal with E : slice content a ?ce = Ok _ |- _ =>
    destruct (slice_inv' _ _ _ _ E) as (_ & Hace & Hcelen) end.
  match goal with E : slice content _ a = Ok _ |- _ =>
    destruct (slice_inv' _ _ _ _ E) as (_ & _ & Halen) end.
  destruct (next_end_spec content (b - 1) ltac:(lia)) as (N1 & _).
  (* the text left of the region does not end with a carriage return *)
  assert (forall X, endst false (sub content X a) = false) as Fbef.
  { intros X. destruct (Nat.le_gt_cases a X) as [L|L].
    - unfold sub. replace (a - X) with 0 by lia. reflexivity.
    - destruct (nth_error_lt_Some content (a - 1) ltac:(lia)) as [c' Hc'].
      pose proof (sub_one content (a - 1) c' Hc') as H1'. replace (S (a - 1)) with a in H1' by lia.
      rewrite <- (sub_app content X (a - 1) a) by lia. rewrite H1', endst_snoc.
      destruct (beq c' CR) eqn:B; [|reflexivity]. exfalso. apply beq_eq in B. subst c'.
      destruct (Hcrlf (a - 1) Hc') as (_ & Hne & _). lia. }
  (* every carriage return of the coloured part is followed by its line break *)
  assert (crnl (sub content a (Nat.min b (next_end content (b - 1))))) as Fcol.
  { set (ce := Nat.min b (next_end content (b - 1))) in *.
    replace ce with (a + (ce - a)) by lia.
    apply crnl_sub; [intros i Hi; apply (Hcrlf i Hi) | lia |].
    destruct (Nat.eq_dec (ce - a) 0) as [E0|E0]; [left; exact E0|]. right.
    replace (a + (ce - a) - 1) with (ce - 1) by lia. intros Hc.
    destruct (Hcrlf (ce - 1) Hc) as (_ & _ & Hne1 & Hne2).
    destruct (Nat.min_spec b (next_end content (b - 1))) as [[_ Em]|[_ Em]]; fold ce in Em; lia. }
  repeat match goal with E : slice _ _ _ = Ok _ |- _ => apply slice_inv in E end.
  apply Ok_inj in H1. apply Ok_inj in H2. rewrite !app_nil_l in H2. subst.
  apply Stripped_app_plain; [apply Hrs|]. apply Stripped_app_plain; [apply Hrp|].
  apply St_col; [exact Hg|]. apply Stripped_app_plain; [exact Hms|].
  apply St_col; [exact Hr|]. apply Stripped_app_plain; [exact Hnl|].
  apply Stripped_app.
  - apply Stripped_replace_tabs. apply Stripped_go.
    apply removed_lines_Stripped; try (apply Forall_sub; exact Hesc); try assumption.
    apply Fbef.
  - apply Stripped_app_plain; [apply Hrs|]. apply Stripped_app_plain; [apply Hrp|].
    apply St_col; [exact Hg|]. apply Stripped_app_plain; [exact Hme|].
    apply Stripped_col. exact Hr.
Qed.

(** the JSON code block is the pretty form with the colour codes removed.
    DEVIATION: needs a condition on carriage returns; the simplest one is their absence. *)
Theorem build_item_uncolored : forall content a b lr is_removal x y,
  (forall i, nth_error content i <> Some 27%N) ->               (* no ESC byte in the source *)
  (forall i, nth_error content i <> Some CR) ->                 (* no carriage return in the source *)
  build_item content a b is_removal true lr = Ok x ->
  build_item content a b is_removal false lr = Ok y ->
  uncolored x = y.
Proof.
  intros content a b lr is_removal x y Hesc Hcr.
  apply build_item_uncolored_crlf; [exact Hesc|]. intros i Hi. exfalso. exact (Hcr i Hi).
Qed.

(** The statement without any condition on carriage returns is false: in "a\r\nb" with the
    region [0, 2) the pretty form keeps the carriage return (it is followed by the reset code),
    the plain form loses it. *)
Example build_item_uncolored_counterexample :
  let content := [97; 13; 10; 98]%N in
  (forall i, nth_error content i <> Some 27%N) /\
  exists x y,
    build_item content 0 2 true true (Some (1, 1)) = Ok x /\
    build_item content 0 2 true false (Some (1, 1)) = Ok y /\
    uncolored x <> y.
Proof.
  cbv zeta. split.
  - intros i. do 5 (destruct i as [|i]; [discriminate|]). destruct i; discriminate.
  - eexists. eexists. split; [vm_compute; reflexivity|]. split; [vm_compute; reflexivity|].
    vm_compute. discriminate.
Qed.

Print Assumptions build_item_plain.
Print Assumptions line_range_spec.
Print Assumptions build_item_uncolored.
Print Assumptions build_item_uncolored_crlf.
Print Assumptions build_item_uncolored_no_range.
Print Assumptions line_column_width.
