(** C18, the listing half: the line ranges and the statuses of the items of [list] and [list_all]
    do not change when the tag bodies are respelled with the tree structure, the decisions
    (not ready nor pending / ready / pending) and the [unwrap-block] attributes kept; in particular
    under a consistent renaming of the tag names.

    Part 1: the line numbers are preserved by the translation [tr] of [Proofs.SimBody].
    Part 2: the forests of removable ranges (ready and pending) of two trees of the same
            structure correspond under [tr] ([forest_tr] of [Proofs.RespellUnwrap] for both
            components and both modes of the collection).
    Part 3: [merge_all] commutes with a map that is strictly monotone on a set containing the
            end points of the markers.
    Part 4: the keys of the list items ([a_item_keys], [a_item_keys_all]) and the concrete
            [list] / [list_all] on the two renderings.
    Part 5: renaming of the tag names.
    Part 6: an instance. *)
From Coq Require Import List NArith ZArith Arith Bool Lia PeanoNat.
Import ListNotations.
From Chiri Require Import Base.Bytes Base.Res Model.Tokenizer Model.TagParser Model.TreeParser
     Model.Finders Model.Markers Model.Format Model.Clean Model.ListRender
     Spec.TagGrammar Spec.Ranges Spec.Forest Spec.Rename Spec.Simulation
     Proofs.ResLemmas Proofs.Utf8 Proofs.Utf8Lemmas Proofs.MarkerProofs Proofs.RangeProofs
     Proofs.CollectProofs Proofs.RenameProofs Proofs.SimFlat Proofs.SimStrings Proofs.SimFront
     Proofs.MonoMap Proofs.SimClean Proofs.WellNested Proofs.DocMask Proofs.AstCollect
     Proofs.Idempotent Proofs.SimBody Proofs.IdempotentUnwrap Proofs.RespellBodies
     Proofs.RenameTags Proofs.RenameClean Proofs.SimBodyUnwrap Proofs.RespellUnwrap Proofs.SimList.

(* ------------------------------------------------------------------------- *)
(** * Part 1: the line numbers are preserved by [tr] *)

(** The number of line breaks of a tag body. *)
Definition nlb (b : str) : nat := a_count_nl (map B b).

(** Two tag bodies with the same number of line breaks. *)
Definition same_nl (b b' : str) : Prop := nlb b = nlb b'.

Lemma nlb_cons c b : nlb (c :: b) = (if beq c NL then 1 else 0) + nlb b.
Proof. unfold nlb, a_count_nl. cbn [map filter is_bnl]. destruct (beq c NL); reflexivity. Qed.

Lemma nlb_nonl b : ~ In NL b -> nlb b = 0.
Proof.
  induction b as [|c b IH]; intros H; [reflexivity|].
  rewrite nlb_cons, IH by (intros Hin; apply H; right; exact Hin).
  destruct (beq c NL) eqn:E; [|reflexivity].
  exfalso. apply H. left. unfold beq in E. apply N.eqb_eq in E. exact E.
Qed.

Lemma count_flat_tag b : a_count_nl (flat_item (Tag b)) = nlb b.
Proof.
  cbn [flat_item]. change (DS :: map B b ++ [DE]) with ([DS] ++ map B b ++ [DE]).
  rewrite !a_count_nl_app. change (a_count_nl [DS]) with 0. change (a_count_nl [DE]) with 0.
  unfold nlb. lia.
Qed.

(** Documents of the same shape without line breaks in tag bodies: corresponding bodies have
    the same number of line breaks (none). *)
Lemma nonl_same_nl : forall d1 d2, same_shape d1 d2 -> nonl d1 -> nonl d2 -> shape_rel same_nl d1 d2.
Proof.
  shape_ind.
  - intros _ _. constructor.
  - intros t r1 r2 _ IH N1 N2. constructor; [reflexivity|].
    apply IH; [apply (nonl_tail _ _ N1) | apply (nonl_tail _ _ N2)].
  - intros b1 b2 r1 r2 _ IH N1 N2. constructor.
    + unfold same_nl. rewrite (nlb_nonl b1), (nlb_nonl b2); [reflexivity | |].
      * apply N2. left. reflexivity.
      * apply N1. left. reflexivity.
    + apply IH; [apply (nonl_tail _ _ N1) | apply (nonl_tail _ _ N2)].
Qed.

Lemma shape_rel_weaken (P Q : str -> str -> Prop) d1 d2 :
  (forall b b', P b b' -> Q b b') -> shape_rel P d1 d2 -> shape_rel Q d1 d2.
Proof.
  intros HPQ H. induction H as [|a b r1 r2 Hab _ IH]; constructor; [|exact IH].
  destruct a, b; try exact Hab. apply HPQ. exact Hab.
Qed.

Lemma firstn_flat_txt_lt t r j : j < length t -> firstn j (flat (Txt t :: r)) = firstn j (map B t).
Proof.
  intros H. rewrite flat_cons. cbn [flat_item]. rewrite firstn_app, map_length.
  replace (j - length t) with 0 by lia. rewrite firstn_O, app_nil_r. reflexivity.
Qed.

Lemma firstn_flat_txt_ge t r j :
  firstn (length t + j) (flat (Txt t :: r)) = map B t ++ firstn j (flat r).
Proof.
  rewrite flat_cons. cbn [flat_item]. rewrite <- (map_length B t) at 1. apply firstn_app_2.
Qed.

Lemma firstn_flat_tag_ge b r j :
  firstn (length b + 2 + j) (flat (Tag b :: r)) = flat_item (Tag b) ++ firstn j (flat r).
Proof.
  rewrite flat_cons. rewrite <- (flat_item_len (Tag b)). apply firstn_app_2.
Qed.

(** The line breaks in front of an outer position. *)
Theorem count_nl_tr_gen : forall d1 d2, shape_rel same_nl d1 d2 -> forall j, outer d1 j ->
  a_count_nl (firstn (tr d1 d2 j) (flat d2)) = a_count_nl (firstn j (flat d1)).
Proof.
  unfold outer. apply (shape_rel_ind' same_nl
    (fun d1 d2 => forall j, outerb d1 j = true ->
       a_count_nl (firstn (tr d1 d2 j) (flat d2)) = a_count_nl (firstn j (flat d1)))).
  - intros j H. cbn [outerb] in H. apply Nat.eqb_eq in H. subst j. reflexivity.
  - intros t r1 r2 _ IH j H. destruct (txt_cases t j) as [L|[j' ->]].
    + rewrite (tr_txt_lt t r1 _ r2 j L), !(firstn_flat_txt_lt t _ j L). reflexivity.
    + rewrite outer_txt_ge in H. rewrite tr_txt_ge, !firstn_flat_txt_ge, !a_count_nl_app.
      rewrite (IH j' H). reflexivity.
  - intros b1 b2 r1 r2 Hb _ IH j H. destruct (tag_cases b1 j) as [->|[L|[j' ->]]].
    + rewrite tr_0. reflexivity.
    + rewrite (outer_tag_in b1 r1 j L) in H. discriminate H.
    + rewrite outer_tag_ge in H. rewrite tr_tag_ge, !firstn_flat_tag_ge, !a_count_nl_app.
      rewrite !count_flat_tag, (IH j' H). unfold same_nl in Hb. rewrite Hb. reflexivity.
Qed.

(** The form of the statement: no tag body contains a line break. *)
Theorem count_nl_tr d1 d2 j : same_shape d1 d2 -> nonl d1 -> nonl d2 -> outer d1 j ->
  a_count_nl (firstn (tr d1 d2 j) (flat d2)) = a_count_nl (firstn j (flat d1)).
Proof.
  intros H N1 N2 Hj. apply count_nl_tr_gen; [apply nonl_same_nl; assumption | exact Hj].
Qed.

(** The line of the last symbol in front of an outer position. *)
Theorem a_line_tr_gen d1 d2 j : shape_rel same_nl d1 d2 -> outer d1 j ->
  a_line (flat d2) (tr d1 d2 j) = a_line (flat d1) j.
Proof. intros H Hj. unfold a_line. rewrite (count_nl_tr_gen d1 d2 H j Hj). reflexivity. Qed.

(** The line of the symbol at an outer position (the first symbol of a tag, a text symbol; at
    the end of the document: the last line), without any side condition on the position: the
    symbols at [a] and at [tr a] are the same. *)
Theorem a_line_S_tr_gen d1 d2 a : shape_rel same_nl d1 d2 -> outer d1 a ->
  a_line (flat d2) (S (tr d1 d2 a)) = a_line (flat d1) (S a).
Proof.
  intros H Ha. pose proof (shape_rel_same _ _ _ H) as Hs.
  pose proof (tr_nth d1 d2 Hs a Ha) as N. unfold a_line. f_equal.
  destruct (nth_error (flat d1) a) as [x|] eqn:E.
  - rewrite (SimFlat.firstn_S_nth _ _ x N), (SimFlat.firstn_S_nth _ _ x E), !a_count_nl_app.
    rewrite (count_nl_tr_gen d1 d2 H a Ha). reflexivity.
  - apply nth_error_None in N. apply nth_error_None in E.
    rewrite (firstn_all2 (n := S (tr d1 d2 a))) by lia. rewrite (firstn_all2 (n := S a)) by lia.
    pose proof (count_nl_tr_gen d1 d2 H a Ha) as C.
    rewrite (firstn_all2 (n := tr d1 d2 a) (flat d2)) in C by lia.
    rewrite (firstn_all2 (n := a) (flat d1)) in C by lia. exact C.
Qed.

Theorem a_line_tr d1 d2 j : same_shape d1 d2 -> nonl d1 -> nonl d2 -> outer d1 j ->
  a_line (flat d2) (tr d1 d2 j) = a_line (flat d1) j.
Proof. intros H N1 N2. apply a_line_tr_gen. apply nonl_same_nl; assumption. Qed.

Theorem a_line_S_tr d1 d2 a : same_shape d1 d2 -> nonl d1 -> nonl d2 -> outer d1 a ->
  a_line (flat d2) (S (tr d1 d2 a)) = a_line (flat d1) (S a).
Proof. intros H N1 N2. apply a_line_S_tr_gen. apply nonl_same_nl; assumption. Qed.

(** The key of a listed marker with outer end points. *)
Theorem a_key_tr d1 d2 x : shape_rel same_nl d1 d2 -> marker_on (outer d1) (fst x) ->
  a_key (flat d2) (map_mb (tr d1 d2) x) = a_key (flat d1) x.
Proof.
  intros H [H1 H2]. unfold a_key, map_mb, map_marker. cbn [fst snd].
  rewrite fst_map_range, snd_map_range.
  rewrite (a_line_S_tr_gen d1 d2 _ H H1), (a_line_tr_gen d1 d2 _ H H2). reflexivity.
Qed.

(* ------------------------------------------------------------------------- *)
(** * Part 2: the ready and the pending forests of two trees of the same structure *)

(** The decisions (not ready nor pending / ready / pending) on the opening tags, in pre-order. *)
Definition statuses (cfg : config) (f : list ast) : list (option bool) :=
  map (fun b => status cfg (el_of b)) (opens f).

Lemma statuses_cons cfg x f : statuses cfg (x :: f) = statuses cfg [x] ++ statuses cfg f.
Proof. unfold statuses. rewrite (opens_cons x f), map_app. reflexivity. Qed.

Lemma statuses_length P cfg cfg' f f' : RespellBodies.same_tree P f f' ->
  length (statuses cfg f) = length (statuses cfg' f').
Proof.
  intros H. unfold statuses. rewrite !map_length.
  apply same_tree_opens in H. induction H as [|? ? ? ? _ _ IH]; [reflexivity | cbn [length]; congruence].
Qed.

(** Equal statuses give equal readiness. *)
Lemma statuses_decisions cfg cfg' f f' :
  statuses cfg f = statuses cfg' f' -> decisions cfg f = decisions cfg' f'.
Proof.
  intros H.
  assert (forall c g, decisions c g =
            map (fun o : option bool => match o with Some true => true | _ => false end)
                (statuses c g)) as E.
  { intros c g. unfold decisions, statuses. rewrite map_map. reflexivity. }
  rewrite !E, H. reflexivity.
Qed.

(** The ranges built for corresponding elements correspond, for the elements whose
    [unwrap-block] flag satisfies [U]. *)
Definition create_ok (U : bool -> Prop) (d d' : list item) : Prop :=
  forall el el' o c, has_attr S_UNWRAP (el_attrs el') = has_attr S_UNWRAP (el_attrs el) ->
    U (has_attr S_UNWRAP (el_attrs el)) -> o < length d -> c < length d ->
    a_create d' el' o c = map_rr (tr d d') (a_create d el o c) /\
    rr_on (outer d) (a_create d el o c).

(** With unwrap-block elements: no tag body contains a line break. *)
Lemma create_ok_nonl d d' : same_shape d d' -> nonl d -> nonl d' -> create_ok (fun _ => True) d d'.
Proof. intros H N1 N2 el el' o c Ha _ Ho Hc. apply shape2_create; assumption. Qed.

(** Without unwrap-block elements nothing is asked of the tag bodies. *)
Lemma create_ok_nu d d' : same_shape d d' -> create_ok (fun u => u = false) d d'.
Proof.
  intros H el el' o c Ha Hu Ho Hc. unfold a_create. rewrite Ha, Hu.
  destruct (tr_fstart d d' H o ltac:(lia)) as [O1 T1].
  destruct (tr_fstart d d' H (S c) ltac:(lia)) as [O4 T4].
  unfold map_rr, map_range. cbn [fst snd option_map]. rewrite T1, T4.
  split; [reflexivity|]. split; [split; assumption | exact I].
Qed.

Definition map_rb (f : nat -> nat) (rb : removable_range * bool) : removable_range * bool :=
  (map_rr f (fst rb), snd rb).

(** The range of one element, in both modes of the collection. *)
Lemma element_range_tr U cfg cfg' d d' pending el el' o c :
  same_shape d d' -> create_ok U d d' ->
  has_attr S_UNWRAP (el_attrs el') = has_attr S_UNWRAP (el_attrs el) ->
  U (has_attr S_UNWRAP (el_attrs el)) -> o < length d -> c < length d ->
  status cfg' el' = status cfg el ->
  a_element_range cfg' d' pending el' o c =
    option_map (map_rb (tr d d')) (a_element_range cfg d pending el o c) /\
  (forall r b, a_element_range cfg d pending el o c = Some (r, b) -> rr_on (outer d) r).
Proof.
  intros H HC Ha Hu Ho Hc Hs. unfold a_element_range. rewrite Hs.
  destruct (HC el el' o c Ha Hu Ho Hc) as [Ec Hon]. rewrite Ec.
  destruct (a_create d el o c) as [[a b] cl].
  destruct Hon as [[Oa Ob] Hcl]. cbn [fst snd] in Oa, Ob, Hcl.
  assert ((tr d d' a <? tr d d' b) = (a <? b)) as El
    by (apply (sim_ltb _ _ _ _ (tr_sim d d' H) a b Oa Ob)).
  assert (rr_on (outer d) (a, b, cl)) as Hrr by (split; [split; assumption | exact Hcl]).
  destruct (status cfg el) as [[|]|]; [| destruct pending |];
    try (split; [reflexivity | intros r b0 E; discriminate E]);
    unfold map_rr at 1; unfold map_range at 1; cbn [fst snd]; rewrite El;
    (destruct (a <? b); cbn [option_map];
     [split; [reflexivity | intros r b0 E; inversion E; subst r; exact Hrr]
     | split; [reflexivity | intros r b0 E; discriminate E]]).
Qed.

Definition map_pair (f : nat -> nat) (p : list rtree * list rtree) : list rtree * list rtree :=
  (map (map_rtree f) (fst p), map (map_rtree f) (snd p)).

Definition pair_on (O : nat -> Prop) (p : list rtree * list rtree) : Prop :=
  Forall (rtree_on O) (fst p) /\ Forall (rtree_on O) (snd p).

Lemma map_pair_app f p q : map_pair f (pair_app p q) = pair_app (map_pair f p) (map_pair f q).
Proof. unfold map_pair, pair_app. cbn [fst snd]. rewrite !map_app. reflexivity. Qed.

Lemma pair_on_app O p q : pair_on O p -> pair_on O q -> pair_on O (pair_app p q).
Proof.
  intros [H1 H2] [H3 H4]. split; unfold pair_app; cbn [fst snd]; apply Forall_app; split; assumption.
Qed.

(** The statement for one forest, in mode [pending]. *)
Definition collect_rel (U : bool -> Prop) cfg cfg' d d' (pending : bool) (f f' : list ast) : Prop :=
  forall base, base + sizes f <= length d ->
    statuses cfg f = statuses cfg' f' -> unwraps f = unwraps f' -> Forall U (unwraps f) ->
    ast_collect cfg' d' pending base f' = map_pair (tr d d') (ast_collect cfg d pending base f) /\
    pair_on (outer d) (ast_collect cfg d pending base f).

Definition collect_rel1 (U : bool -> Prop) cfg cfg' d d' (pending : bool) (a a' : ast) : Prop :=
  forall base, base + size a <= length d ->
    statuses cfg [a] = statuses cfg' [a'] -> unwraps [a] = unwraps [a'] -> Forall U (unwraps [a]) ->
    ast_collect1 cfg' d' pending base a' = map_pair (tr d d') (ast_collect1 cfg d pending base a) /\
    pair_on (outer d) (ast_collect1 cfg d pending base a).

Lemma collect_same_gen_both P U cfg cfg' d d' pending : same_shape d d' -> create_ok U d d' ->
  (forall a a', RespellBodies.same1 P a a' -> collect_rel1 U cfg cfg' d d' pending a a') /\
  (forall f f', RespellBodies.same_tree P f f' -> collect_rel U cfg cfg' d d' pending f f').
Proof.
  intros H HC.
  apply (RespellBodies.same_ind P (collect_rel1 U cfg cfg' d d' pending)
                                  (collect_rel U cfg cfg' d d' pending));
    unfold collect_rel1, collect_rel.
  - intros t base _ _ _ _. split; [reflexivity | split; constructor].
  - intros b b' _ base _ _ _ _. split; [reflexivity | split; constructor].
  - intros b1 b2 kids c1 c2 k' _ _ Hk IH base Hb Hd Hu HU.
    cbn [size] in Hb. fold (sizes kids) in Hb.
    unfold statuses in Hd. rewrite !opens_AE in Hd. cbn [map] in Hd. inversion Hd as [[D1 D2]].
    unfold unwraps in Hu, HU. rewrite !opens_AE in Hu. rewrite opens_AE in HU.
    cbn [map] in Hu, HU. inversion Hu as [[U1 U2]]. inversion HU as [|? ? HU1 HU2]; subst.
    destruct (IH (S base) ltac:(lia) D2 U2 HU2) as [Ek [Ok1 Ok2]].
    rewrite !ast_collect1_AE. unfold collect_node.
    rewrite <- (same_tree_sizes P _ _ Hk).
    destruct (element_range_tr U cfg cfg' d d' pending (el_of b1) (el_of c1) base (S base + sizes kids)
                H HC (eq_sym U1) HU1 ltac:(lia) ltac:(lia) (eq_sym D1)) as [En On].
    rewrite En, Ek.
    destruct (a_element_range cfg d pending (el_of b1) base (S base + sizes kids)) as [[r [|]]|];
      cbn [option_map map_rb fst snd].
    + unfold map_pair. cbn [fst snd map]. rewrite map_rtree_RT. split; [reflexivity|].
      split; cbn [fst snd]; [|exact Ok2].
      constructor; [|constructor]. apply rr_on_rtree; [apply (On r true); reflexivity | exact Ok1].
    + unfold map_pair. cbn [fst snd map]. rewrite map_rtree_RT. split; [reflexivity|].
      split; cbn [fst snd]; [exact Ok1|].
      constructor; [|constructor]. apply rr_on_rtree; [apply (On r false); reflexivity | exact Ok2].
    + split; [reflexivity | split; assumption].
  - intros base _ _ _ _. split; [reflexivity | split; constructor].
  - intros x x' f f' Hx Hf IHx IHf base Hb Hd Hu HU. rewrite sizes_cons in Hb.
    rewrite (statuses_cons cfg x), (statuses_cons cfg' x') in Hd.
    apply app_eq_len in Hd; [|apply (statuses_length P); apply same1_singleton; exact Hx].
    destruct Hd as [D1 D2].
    rewrite (unwraps_cons x) in HU. apply Forall_app in HU. destruct HU as [HU1 HU2].
    rewrite (unwraps_cons x), (unwraps_cons x') in Hu.
    apply app_eq_len in Hu; [|apply (unwraps_length P); apply same1_singleton; exact Hx].
    destruct Hu as [U1 U2].
    destruct (IHx base ltac:(lia) D1 U1 HU1) as [E1 O1].
    destruct (IHf (base + size x) ltac:(lia) D2 U2 HU2) as [E2 O2].
    cbn [ast_collect]. rewrite <- (same1_size P _ _ Hx), E1, E2, map_pair_app.
    split; [reflexivity | apply pair_on_app; assumption].
Qed.

Lemma collect_same_gen P U cfg cfg' d d' pending : same_shape d d' -> create_ok U d d' ->
  forall f f', RespellBodies.same_tree P f f' -> collect_rel U cfg cfg' d d' pending f f'.
Proof. intros H HC. apply (proj2 (collect_same_gen_both P U cfg cfg' d d' pending H HC)). Qed.

(** The forests of the second tree, ready and pending, are the translated forests of the first
    one, in both modes of the collection; all positions are outer positions.  General form. *)
Theorem forests_tr_gen P U cfg cfg' pending f f' :
  RespellBodies.same_tree P f f' -> Forall ast_ok f -> Forall ast_ok f' ->
  create_ok U (doc_of f) (doc_of f') ->
  statuses cfg f = statuses cfg' f' -> unwraps f = unwraps f' -> Forall U (unwraps f) ->
  a_collect cfg' (doc_of f') pending =
    map_pair (tr (doc_of f) (doc_of f')) (a_collect cfg (doc_of f) pending) /\
  pair_on (outer (doc_of f)) (a_collect cfg (doc_of f) pending).
Proof.
  intros Hst Hok Hok' HC Hd Hu HU.
  rewrite (a_collect_ast cfg pending f Hok), (a_collect_ast cfg' pending f' Hok').
  apply (collect_same_gen P U cfg cfg' (doc_of f) (doc_of f') pending
           (shape_rel_same P _ _ (same_tree_doc P f f' Hst)) HC f f' Hst 0);
    [rewrite sizes_doc; lia | exact Hd | exact Hu | exact HU].
Qed.

(** With unwrap-block elements: no tag body of either tree contains a line break. *)
Theorem forests_tr P cfg cfg' pending f f' :
  RespellBodies.same_tree P f f' -> Forall ast_ok f -> Forall ast_ok f' ->
  nonl (doc_of f) -> nonl (doc_of f') ->
  statuses cfg f = statuses cfg' f' -> unwraps f = unwraps f' ->
  a_collect cfg' (doc_of f') pending =
    map_pair (tr (doc_of f) (doc_of f')) (a_collect cfg (doc_of f) pending) /\
  pair_on (outer (doc_of f)) (a_collect cfg (doc_of f) pending).
Proof.
  intros Hst Hok Hok' N1 N2 Hd Hu.
  apply (forests_tr_gen P (fun _ => True)); try assumption.
  - apply create_ok_nonl; [exact (shape_rel_same P _ _ (same_tree_doc P f f' Hst)) | exact N1 | exact N2].
  - apply Forall_forall. intros u _. exact I.
Qed.

(** The form of the statement: the first tree is strict. *)
Corollary forests_tr_strict P cfg cfg' f f' :
  RespellBodies.same_tree P f f' -> Forall ast_ok f -> Forall ast_ok f' ->
  strict f -> nonl (doc_of f') ->
  statuses cfg f = statuses cfg' f' -> unwraps f = unwraps f' ->
  fst (a_collect cfg' (doc_of f') true) =
    map (map_rtree (tr (doc_of f) (doc_of f'))) (fst (a_collect cfg (doc_of f) true)) /\
  snd (a_collect cfg' (doc_of f') true) =
    map (map_rtree (tr (doc_of f) (doc_of f'))) (snd (a_collect cfg (doc_of f) true)) /\
  Forall (rtree_on (outer (doc_of f))) (fst (a_collect cfg (doc_of f) true)) /\
  Forall (rtree_on (outer (doc_of f))) (snd (a_collect cfg (doc_of f) true)).
Proof.
  intros Hst Hok Hok' Hs N2 Hd Hu.
  destruct (forests_tr P cfg cfg' true f f' Hst Hok Hok' (strict_nonl f Hs) N2 Hd Hu) as [E [O1 O2]].
  rewrite E. unfold map_pair. cbn [fst snd]. repeat split; assumption.
Qed.

(** Without unwrap-block elements. *)
Lemma no_unwrap_unwraps f : no_unwrap f <-> Forall (fun u => u = false) (unwraps f).
Proof.
  unfold no_unwrap, nu_nodes, unwraps. rewrite (opens_nodes f 0), map_map, Forall_forall. split.
  - intros H u Hu. apply in_map_iff in Hu. destruct Hu as (n & <- & Hn). apply (H n Hn).
  - intros H n Hn. apply H. apply in_map_iff. exists n. split; [reflexivity | exact Hn].
Qed.

Lemma all_false_eq (l l' : list bool) : length l = length l' ->
  Forall (fun u => u = false) l -> Forall (fun u => u = false) l' -> l = l'.
Proof.
  revert l'. induction l as [|x l IH]; intros [|y l'] Hl H H'; try discriminate Hl; [reflexivity|].
  inversion H; inversion H'; subst. f_equal. apply IH; [cbn [length] in Hl; lia | assumption | assumption].
Qed.

Theorem forests_tr_nu P cfg cfg' pending f f' :
  RespellBodies.same_tree P f f' -> Forall ast_ok f -> Forall ast_ok f' ->
  no_unwrap f -> no_unwrap f' ->
  statuses cfg f = statuses cfg' f' ->
  a_collect cfg' (doc_of f') pending =
    map_pair (tr (doc_of f) (doc_of f')) (a_collect cfg (doc_of f) pending) /\
  pair_on (outer (doc_of f)) (a_collect cfg (doc_of f) pending).
Proof.
  intros Hst Hok Hok' Hn Hn' Hd.
  apply no_unwrap_unwraps in Hn. apply no_unwrap_unwraps in Hn'.
  apply (forests_tr_gen P (fun u => u = false)); try assumption.
  - apply create_ok_nu. exact (shape_rel_same P _ _ (same_tree_doc P f f' Hst)).
  - apply all_false_eq; [apply (unwraps_length P); exact Hst | exact Hn | exact Hn'].
Qed.

(* ------------------------------------------------------------------------- *)
(** * Part 3: [merge_all] and maps that are monotone on a set of positions *)

(** Both end points of a listed marker are in [O]. *)
Definition mb_on (O : nat -> Prop) (x : marker * bool) : Prop := marker_on O (fst x).

(** [take_pending] compares end points with [<=?], [<?] and [contains] only. *)
Lemma take_pending_on f O r : smono f O -> range_on O r -> forall pend before after,
  Forall (marker_on O) pend ->
  take_pending (map_range f r) (map (map_marker f) pend) (map (map_mb f) before) (map (map_mb f) after) =
  (map (map_mb f) (fst (fst (take_pending r pend before after))),
   map (map_mb f) (snd (fst (take_pending r pend before after))),
   map (map_marker f) (snd (take_pending r pend before after))).
Proof.
  intros Hf Hr. induction pend as [|[p pidx] rest IH]; intros before after Hp; [reflexivity|].
  inversion Hp as [|x l Hp0 Hrest]; subst. destruct Hp0 as [Hp1 Hp2]. cbn [fst] in Hp1, Hp2.
  pose proof Hr as [Hr1 Hr2].
  cbn [map]. change (map_marker f (p, pidx)) with (map_range f p, pidx). cbn [take_pending].
  rewrite !fst_map_range, !snd_map_range.
  rewrite (smono_leb f O Hf (snd r) (fst p) Hr2 Hp1).
  destruct (snd r <=? fst p); [reflexivity|].
  rewrite (contains_on f O r (fst p) Hf Hr Hp1).
  rewrite (contains_on f O r (snd p) Hf Hr Hp2).
  rewrite (smono_ltb f O Hf (fst p) (fst r) Hp1 Hr1).
  destruct (contains r (fst p) && contains r (snd p)); [apply IH; exact Hrest|].
  destruct (fst p <? fst r).
  - change (map (map_mb f) before ++ [((map_range f p, pidx), false)])
      with (map (map_mb f) before ++ map (map_mb f) [((p, pidx), false)]).
    rewrite <- map_app. apply IH. exact Hrest.
  - change (map (map_mb f) after ++ [((map_range f p, pidx), false)])
      with (map (map_mb f) after ++ map (map_mb f) [((p, pidx), false)]).
    rewrite <- map_app. apply IH. exact Hrest.
Qed.

(** [merge_all] commutes with a map that is strictly monotone on a set containing the end points
    of the given markers ([SimList.merge_all_mono] asks for a map monotone on an initial segment). *)
Theorem merge_all_on f O : smono f O -> forall ranges pend merged,
  Forall (marker_on O) ranges -> Forall (marker_on O) pend ->
  merge_all (map (map_marker f) ranges) (map (map_marker f) pend) (map (map_mb f) merged) =
  map (map_mb f) (merge_all ranges pend merged).
Proof.
  intros Hf. induction ranges as [|[r idx] rest IH]; intros pend merged Hr Hp.
  - cbn [map merge_all]. rewrite map_app, !map_map. reflexivity.
  - inversion Hr as [|x l Hr0 Hrest]; subst.
    cbn [map]. change (map_marker f (r, idx)) with (map_range f r, idx). cbn [merge_all].
    pose proof (take_pending_on f O r Hf Hr0 pend [] [] Hp) as E. cbn [map] in E. rewrite E.
    destruct (take_pending_forall (marker_on O) r pend [] [] Hp (Forall_nil _) (Forall_nil _))
      as (_ & _ & Hp').
    destruct (take_pending r pend [] []) as [[b a] p']. cbn [fst snd] in *.
    change [((map_range f r, idx), true)] with (map (map_mb f) [((r, idx), true)]).
    rewrite <- !map_app. apply IH; assumption.
Qed.

(** The end points of the merged list are end points of the given markers. *)
Corollary merge_all_markers_on O ranges pend :
  Forall (marker_on O) ranges -> Forall (marker_on O) pend ->
  Forall (mb_on O) (merge_all ranges pend []).
Proof.
  intros Hr Hp. apply (merge_all_forall (marker_on O) ranges pend [] Hr Hp). constructor.
Qed.

(* ------------------------------------------------------------------------- *)
(** * Part 4: the keys of the list items *)

Lemma tr_smono d d' : same_shape d d' -> smono (tr d d') (outer d).
Proof. intros H a b Ha Hb Hab. apply (tr_mono d d' H a b Ha Hb Hab). Qed.

(** From corresponding forests to equal keys. *)
Lemma keys_of_forests cfg cfg' d d' : shape_rel same_nl d d' ->
  (forall pending,
     a_collect cfg' d' pending = map_pair (tr d d') (a_collect cfg d pending) /\
     pair_on (outer d) (a_collect cfg d pending)) ->
  a_item_keys cfg' d' = a_item_keys cfg d /\ a_item_keys_all cfg' d' = a_item_keys_all cfg d.
Proof.
  intros H HF. pose proof (tr_smono d d' (shape_rel_same _ _ _ H)) as Hmono. split.
  - destruct (HF false) as [E [O1 _]].
    unfold a_item_keys, a_list_markers, a_markers. rewrite E. unfold map_pair. cbn [fst].
    destruct (merge_markers_on (tr d d') (outer d) _ Hmono O1) as [EM HM]. rewrite EM.
    destruct (merge_markers (fst (a_collect cfg d false))) as [ms|]; cbn [bind]; [|reflexivity].
    specialize (HM ms eq_refl). rewrite !map_map. apply map_ext_in. intros m Hm.
    change (map_marker (tr d d') m, true) with (map_mb (tr d d') (m, true)).
    apply a_key_tr; [exact H|]. cbn [fst]. rewrite Forall_forall in HM. apply (HM m Hm).
  - destruct (HF true) as [E [O1 O2]].
    unfold a_item_keys_all, a_markers_all. rewrite E. unfold map_pair. cbn [fst snd].
    destruct (merge_markers_on (tr d d') (outer d) _ Hmono O1) as [EM1 HM1]. rewrite EM1.
    destruct (merge_markers (fst (a_collect cfg d true))) as [r|]; cbn [bind]; [|reflexivity].
    destruct (merge_markers_on (tr d d') (outer d) _ Hmono O2) as [EM2 HM2]. rewrite EM2.
    destruct (merge_markers (snd (a_collect cfg d true))) as [p|]; cbn [bind]; [|reflexivity].
    specialize (HM1 r eq_refl). specialize (HM2 p eq_refl).
    pose proof (merge_all_on (tr d d') (outer d) Hmono r p [] HM1 HM2) as EA. cbn [map] in EA.
    rewrite EA, map_map. apply map_ext_in. intros x Hx.
    apply a_key_tr; [exact H|].
    pose proof (merge_all_markers_on (outer d) r p HM1 HM2) as HA.
    rewrite Forall_forall in HA. apply (HA x Hx).
Qed.

(** ** The abstract keys: general form, with unwrap-block elements, without *)

Theorem item_keys_respell_gen P U cfg cfg' f f' :
  RespellBodies.same_tree P f f' -> Forall ast_ok f -> Forall ast_ok f' ->
  create_ok U (doc_of f) (doc_of f') -> shape_rel same_nl (doc_of f) (doc_of f') ->
  statuses cfg f = statuses cfg' f' -> unwraps f = unwraps f' -> Forall U (unwraps f) ->
  a_item_keys cfg' (doc_of f') = a_item_keys cfg (doc_of f) /\
  a_item_keys_all cfg' (doc_of f') = a_item_keys_all cfg (doc_of f).
Proof.
  intros Hst Hok Hok' HC Hnl Hd Hu HU. apply keys_of_forests; [exact Hnl|].
  intros pending. apply (forests_tr_gen P U); assumption.
Qed.

(** With unwrap-block elements: no tag body of either tree contains a line break. *)
Theorem item_keys_respell_nonl P cfg cfg' f f' :
  RespellBodies.same_tree P f f' -> Forall ast_ok f -> Forall ast_ok f' ->
  nonl (doc_of f) -> nonl (doc_of f') ->
  statuses cfg f = statuses cfg' f' -> unwraps f = unwraps f' ->
  a_item_keys cfg' (doc_of f') = a_item_keys cfg (doc_of f) /\
  a_item_keys_all cfg' (doc_of f') = a_item_keys_all cfg (doc_of f).
Proof.
  intros Hst Hok Hok' N1 N2 Hd Hu.
  pose proof (shape_rel_same P _ _ (same_tree_doc P f f' Hst)) as Hsh.
  apply keys_of_forests; [apply nonl_same_nl; assumption|].
  intros pending. apply (forests_tr P); assumption.
Qed.

(** The form of the statement: the first tree is strict (then the second one is strict too,
    [RespellUnwrap.same_tree_strict]). *)
Theorem item_keys_respell P cfg cfg' f f' :
  RespellBodies.same_tree P f f' -> Forall ast_ok f -> Forall ast_ok f' ->
  strict f -> nonl (doc_of f') ->
  statuses cfg f = statuses cfg' f' -> unwraps f = unwraps f' ->
  a_item_keys cfg' (doc_of f') = a_item_keys cfg (doc_of f).
Proof.
  intros Hst Hok Hok' Hs N2 Hd Hu.
  apply (item_keys_respell_nonl P cfg cfg' f f' Hst Hok Hok' (strict_nonl f Hs) N2 Hd Hu).
Qed.

Theorem item_keys_all_respell P cfg cfg' f f' :
  RespellBodies.same_tree P f f' -> Forall ast_ok f -> Forall ast_ok f' ->
  strict f -> nonl (doc_of f') ->
  statuses cfg f = statuses cfg' f' -> unwraps f = unwraps f' ->
  a_item_keys_all cfg' (doc_of f') = a_item_keys_all cfg (doc_of f).
Proof.
  intros Hst Hok Hok' Hs N2 Hd Hu.
  apply (item_keys_respell_nonl P cfg cfg' f f' Hst Hok Hok' (strict_nonl f Hs) N2 Hd Hu).
Qed.

(** Without unwrap-block elements: corresponding tag bodies have the same number of line breaks
    (nothing else is asked of the bodies). *)
Theorem item_keys_respell_nu_gen P cfg cfg' f f' :
  RespellBodies.same_tree P f f' -> Forall ast_ok f -> Forall ast_ok f' ->
  no_unwrap f -> no_unwrap f' -> shape_rel same_nl (doc_of f) (doc_of f') ->
  statuses cfg f = statuses cfg' f' ->
  a_item_keys cfg' (doc_of f') = a_item_keys cfg (doc_of f) /\
  a_item_keys_all cfg' (doc_of f') = a_item_keys_all cfg (doc_of f).
Proof.
  intros Hst Hok Hok' Hn Hn' Hnl Hd. apply keys_of_forests; [exact Hnl|].
  intros pending. apply (forests_tr_nu P); assumption.
Qed.

(** The same with the condition on the relation between the bodies. *)
Theorem item_keys_respell_nu_rel P cfg cfg' f f' :
  RespellBodies.same_tree P f f' -> Forall ast_ok f -> Forall ast_ok f' ->
  no_unwrap f -> no_unwrap f' -> (forall b b', P b b' -> nlb b = nlb b') ->
  statuses cfg f = statuses cfg' f' ->
  a_item_keys cfg' (doc_of f') = a_item_keys cfg (doc_of f) /\
  a_item_keys_all cfg' (doc_of f') = a_item_keys_all cfg (doc_of f).
Proof.
  intros Hst Hok Hok' Hn Hn' HP Hd.
  apply (item_keys_respell_nu_gen P); try assumption.
  apply (shape_rel_weaken P same_nl _ _ HP). apply same_tree_doc. exact Hst.
Qed.

(** The same with "no tag body contains a line break". *)
Theorem item_keys_respell_nu P cfg cfg' f f' :
  RespellBodies.same_tree P f f' -> Forall ast_ok f -> Forall ast_ok f' ->
  no_unwrap f -> no_unwrap f' -> nonl (doc_of f) -> nonl (doc_of f') ->
  statuses cfg f = statuses cfg' f' ->
  a_item_keys cfg' (doc_of f') = a_item_keys cfg (doc_of f) /\
  a_item_keys_all cfg' (doc_of f') = a_item_keys_all cfg (doc_of f).
Proof.
  intros Hst Hok Hok' Hn Hn' N1 N2 Hd.
  apply (item_keys_respell_nu_gen P); try assumption.
  apply nonl_same_nl; [exact (shape_rel_same P _ _ (same_tree_doc P f f' Hst)) | exact N1 | exact N2].
Qed.

(** ** The concrete listings of the two renderings *)

(** [list] and [list_all] (and their JSON forms) succeed on both renderings, and the items have
    the same line ranges and statuses. *)
Definition same_listing (cfg cfg' : config) (ds de : str) (d d' : list item) : Prop :=
  exists items items' all all',
    (ms <- list_markers cfg ds de (render ds de d) ;; build_list (render ds de d) ms) = Ok items /\
    (ms <- list_markers cfg' ds de (render ds de d') ;; build_list (render ds de d') ms) = Ok items' /\
    map item_key items = map item_key items' /\
    (ms <- markers_all_of cfg ds de (render ds de d) ;; build_list (render ds de d) ms) = Ok all /\
    (ms <- markers_all_of cfg' ds de (render ds de d') ;; build_list (render ds de d') ms) = Ok all' /\
    map item_key all = map item_key all' /\
    list_json cfg ds de (render ds de d) = Ok (json_list items) /\
    list_json cfg' ds de (render ds de d') = Ok (json_list items') /\
    list_all_json cfg ds de (render ds de d) = Ok (json_list all) /\
    list_all_json cfg' ds de (render ds de d') = Ok (json_list all').

Lemma listing_of_keys cfg cfg' ds de d d' :
  good_delims ds de -> good_doc ds de d -> bodies_ok d -> good_doc ds de d' -> bodies_ok d' ->
  a_item_keys cfg' d' = a_item_keys cfg d /\ a_item_keys_all cfg' d' = a_item_keys_all cfg d ->
  same_listing cfg cfg' ds de d d'.
Proof.
  intros Hgd Hdoc Hbod Hdoc' Hbod' [K1 K2].
  destruct (list_rendered cfg ds de d Hgd Hdoc Hbod) as (i1 & E1 & Q1).
  destruct (list_rendered cfg' ds de d' Hgd Hdoc' Hbod') as (i2 & E2 & Q2).
  destruct (list_all_rendered cfg ds de d Hgd Hdoc Hbod) as (i3 & E3 & Q3).
  destruct (list_all_rendered cfg' ds de d' Hgd Hdoc' Hbod') as (i4 & E4 & Q4).
  exists i1, i2, i3, i4.
  split; [exact E1|]. split; [exact E2|]. split; [rewrite Q1, Q2, K1; reflexivity|].
  split; [exact E3|]. split; [exact E4|]. split; [rewrite Q3, Q4, K2; reflexivity|].
  unfold list_json, list_all_json.
  destruct (list_markers cfg ds de (render ds de d)) as [m1|]; cbn [bind] in E1 |- *; [|discriminate E1].
  destruct (list_markers cfg' ds de (render ds de d')) as [m2|]; cbn [bind] in E2 |- *; [|discriminate E2].
  destruct (markers_all_of cfg ds de (render ds de d)) as [m3|]; cbn [bind] in E3 |- *; [|discriminate E3].
  destruct (markers_all_of cfg' ds de (render ds de d')) as [m4|]; cbn [bind] in E4 |- *; [|discriminate E4].
  rewrite E1, E2, E3, E4. cbn [bind]. repeat split; reflexivity.
Qed.

(** With unwrap-block elements, strict domain. *)
Theorem list_respell : forall (P : str -> str -> Prop) cfg cfg' ds de f f',
  good_delims ds de ->
  good_doc ds de (doc_of f) -> bodies_ok (doc_of f) -> Forall ast_ok f -> strict f ->
  good_doc ds de (doc_of f') -> bodies_ok (doc_of f') -> Forall ast_ok f' -> nonl (doc_of f') ->
  RespellBodies.same_tree P f f' ->
  statuses cfg f = statuses cfg' f' -> unwraps f = unwraps f' ->
  same_listing cfg cfg' ds de (doc_of f) (doc_of f').
Proof.
  intros P cfg cfg' ds de f f' Hgd Hdoc Hbod Hok Hs Hdoc' Hbod' Hok' N2 Hst Hd Hu.
  apply listing_of_keys; try assumption.
  apply (item_keys_respell_nonl P cfg cfg' f f' Hst Hok Hok' (strict_nonl f Hs) N2 Hd Hu).
Qed.

(** The same with the condition on the relation between the bodies of corresponding tags. *)
Theorem list_respell_weak : forall (P : str -> str -> Prop) cfg cfg' ds de f f',
  good_delims ds de ->
  good_doc ds de (doc_of f) -> bodies_ok (doc_of f) -> Forall ast_ok f -> strict f ->
  good_doc ds de (doc_of f') -> bodies_ok (doc_of f') -> Forall ast_ok f' -> nonl (doc_of f') ->
  RespellBodies.same_tree P f f' ->
  (forall b b', P b b' -> status cfg (el_of b) = status cfg' (el_of b') /\ is_unwrap b = is_unwrap b') ->
  same_listing cfg cfg' ds de (doc_of f) (doc_of f').
Proof.
  intros P cfg cfg' ds de f f' Hgd Hdoc Hbod Hok Hs Hdoc' Hbod' Hok' N2 Hst HP.
  apply (list_respell P); try assumption.
  - unfold statuses. apply (Forall2_map_eq P); [apply same_tree_opens; exact Hst|].
    intros b b' _ _ Hb. apply (HP b b' Hb).
  - unfold unwraps. apply (Forall2_map_eq P); [apply same_tree_opens; exact Hst|].
    intros b b' _ _ Hb. apply (HP b b' Hb).
Qed.

(** Without unwrap-block elements. *)
Theorem list_respell_nu : forall (P : str -> str -> Prop) cfg cfg' ds de f f',
  good_delims ds de ->
  good_doc ds de (doc_of f) -> bodies_ok (doc_of f) -> Forall ast_ok f -> no_unwrap f ->
  good_doc ds de (doc_of f') -> bodies_ok (doc_of f') -> Forall ast_ok f' -> no_unwrap f' ->
  RespellBodies.same_tree P f f' -> shape_rel same_nl (doc_of f) (doc_of f') ->
  statuses cfg f = statuses cfg' f' ->
  same_listing cfg cfg' ds de (doc_of f) (doc_of f').
Proof.
  intros P cfg cfg' ds de f f' Hgd Hdoc Hbod Hok Hn Hdoc' Hbod' Hok' Hn' Hst Hnl Hd.
  apply listing_of_keys; try assumption.
  apply (item_keys_respell_nu_gen P cfg cfg' f f'); assumption.
Qed.

Theorem list_respell_nu_nonl : forall (P : str -> str -> Prop) cfg cfg' ds de f f',
  good_delims ds de ->
  good_doc ds de (doc_of f) -> bodies_ok (doc_of f) -> Forall ast_ok f -> no_unwrap f ->
  good_doc ds de (doc_of f') -> bodies_ok (doc_of f') -> Forall ast_ok f' -> no_unwrap f' ->
  RespellBodies.same_tree P f f' -> nonl (doc_of f) -> nonl (doc_of f') ->
  statuses cfg f = statuses cfg' f' ->
  same_listing cfg cfg' ds de (doc_of f) (doc_of f').
Proof.
  intros P cfg cfg' ds de f f' Hgd Hdoc Hbod Hok Hn Hdoc' Hbod' Hok' Hn' Hst N1 N2 Hd.
  apply listing_of_keys; try assumption.
  apply (item_keys_respell_nu P cfg cfg' f f'); assumption.
Qed.

(* ------------------------------------------------------------------------- *)
(** * Part 5: renaming of the tag names *)

(** The whole decision (not only the readiness) on the opening tags is unchanged. *)
Theorem statuses_rename (D : str -> Prop) rho cfg f :
  admissible D rho -> cfg_ok D cfg -> tast_ok f -> names_in D f ->
  statuses (rename_cfg rho cfg) (to_ast (rename_tast rho f)) = statuses cfg (to_ast f).
Proof.
  intros A C Hok Hd. unfold statuses.
  rewrite (opens_nodes (to_ast (rename_tast rho f)) 0), (opens_nodes (to_ast f) 0).
  rewrite !nodes_b1_openers, openers_rename, !map_map.
  apply map_ext_in. intros t Hin. apply (status_rename_openers D rho cfg f A C Hok Hd t Hin).
Qed.

Lemma nlb_app a b : nlb (a ++ b) = nlb a + nlb b.
Proof. unfold nlb. rewrite map_app, a_count_nl_app. reflexivity. Qed.

Lemma wf_name_nonl n : wf_name n = true -> ~ In NL n.
Proof.
  intros W Hx. pose proof (wf_name_bytes _ W) as Hb. rewrite forallb_forall in Hb.
  specialize (Hb NL Hx). vm_compute in Hb. discriminate Hb.
Qed.

(** A renamed tag body has as many line breaks as the original one: neither the old nor the new
    name contains one. *)
Lemma same_nl_rename_body (D : str -> Prop) rho t : admissible D rho -> D (trim_slashes (tg_name t)) ->
  wf_tag t = true -> same_nl (print_body t) (print_body (rename_tag rho t)).
Proof.
  intros A Hn W. unfold same_nl. rewrite print_body_rename, print_body_parts, !nlb_app.
  f_equal. f_equal.
  assert (~ In NL (tg_name t)) as H1.
  { apply wf_name_nonl. unfold wf_tag in W. apply andb_true_iff in W. destruct W as [W _].
    apply andb_true_iff in W. destruct W as [W _]. exact W. }
  rewrite (nlb_nonl _ H1). symmetry. apply nlb_nonl. intros Hx. unfold rn in Hx.
  apply in_app_or in Hx. destruct Hx as [Hx|Hx].
  - apply H1. apply in_slashes. exact Hx.
  - apply (wf_name_nonl _ (adm_wf D rho A _ Hn)). exact Hx.
Qed.

(** The documents of a tree and of its renaming: corresponding tag bodies have the same number of
    line breaks. *)
Theorem same_nl_rename (D : str -> Prop) rho f : admissible D rho -> tast_ok f -> names_in D f ->
  shape_rel same_nl (doc_of (to_ast f)) (doc_of (to_ast (rename_tast rho f))).
Proof.
  intros A Hok Hd.
  apply (shape_rel_weaken (P_anyD D rho) same_nl);
    [|apply same_tree_doc; apply (same_tree_renameD D rho f Hok Hd)].
  intros b b' [Hc|(t & W & U & N & Dn & E1 & E2)].
  - unfold P_comment in Hc. subst b'. reflexivity.
  - subst b b'. apply (same_nl_rename_body D rho t A Dn W).
Qed.

(** The abstract keys, strict domain. *)
Theorem item_keys_rename (D : str -> Prop) rho cfg f :
  admissible D rho -> cfg_ok D cfg -> tast_ok f -> names_in D f -> strict (to_ast f) ->
  a_item_keys (rename_cfg rho cfg) (doc_of (to_ast (rename_tast rho f))) =
    a_item_keys cfg (doc_of (to_ast f)) /\
  a_item_keys_all (rename_cfg rho cfg) (doc_of (to_ast (rename_tast rho f))) =
    a_item_keys_all cfg (doc_of (to_ast f)).
Proof.
  intros A C Hok Hd Hs.
  pose proof (tast_ok_rename D rho f A Hd Hok) as Hok'.
  apply (item_keys_respell_nonl (P_any rho) cfg (rename_cfg rho cfg) (to_ast f) (to_ast (rename_tast rho f))).
  - apply same_tree_rename_tast. exact Hok.
  - apply tast_ok_ast_ok. exact Hok.
  - apply tast_ok_ast_ok. exact Hok'.
  - apply strict_nonl. exact Hs.
  - apply (nonl_rename D rho f A Hok Hd). apply strict_nonl. exact Hs.
  - symmetry. apply (statuses_rename D rho cfg f A C Hok Hd).
  - symmetry. apply (unwraps_rename D rho f A Hok Hd).
Qed.

(** The abstract keys, without unwrap-block elements: no condition on line breaks (a renaming
    keeps the number of line breaks of every tag body). *)
Theorem item_keys_rename_nu (D : str -> Prop) rho cfg f :
  admissible D rho -> cfg_ok D cfg -> tast_ok f -> names_in D f -> no_unwrap (to_ast f) ->
  a_item_keys (rename_cfg rho cfg) (doc_of (to_ast (rename_tast rho f))) =
    a_item_keys cfg (doc_of (to_ast f)) /\
  a_item_keys_all (rename_cfg rho cfg) (doc_of (to_ast (rename_tast rho f))) =
    a_item_keys_all cfg (doc_of (to_ast f)).
Proof.
  intros A C Hok Hd Hn.
  pose proof (tast_ok_rename D rho f A Hd Hok) as Hok'.
  apply (item_keys_respell_nu_gen (P_any rho) cfg (rename_cfg rho cfg) (to_ast f) (to_ast (rename_tast rho f))).
  - apply same_tree_rename_tast. exact Hok.
  - apply tast_ok_ast_ok. exact Hok.
  - apply tast_ok_ast_ok. exact Hok'.
  - exact Hn.
  - apply (no_unwrap_rename D rho f A Hok Hd Hn).
  - apply (same_nl_rename D rho f A Hok Hd).
  - symmetry. apply (statuses_rename D rho cfg f A C Hok Hd).
Qed.

(** The renamed document is a good document when the new names carry no delimiter bytes (as in
    [clean_rename_tag_names_unwrap]). *)
Lemma good_renamed (D : str -> Prop) rho ds de f :
  admissible D rho -> tast_ok f -> names_in D f ->
  good_doc ds de (doc_of (to_ast f)) ->
  (forall t, In t (openers_of f) -> disjoint_from ds de (rho (tg_name t))) ->
  bodies_ok (doc_of (to_ast f)) /\
  good_doc ds de (doc_of (to_ast (rename_tast rho f))) /\
  bodies_ok (doc_of (to_ast (rename_tast rho f))).
Proof.
  intros A Hok Hd Hdoc Hdis.
  destruct (good_doc_rename (fun n => D n /\ disjoint_from ds de (rho n)) rho ds de f) as [G B];
    try assumption.
  - apply (admissible_sub D); [intros n [H _]; exact H | exact A].
  - unfold names_in in *. rewrite Forall_forall in *. intros t Ht. split; [apply Hd | apply Hdis]; exact Ht.
  - intros n [_ H]. exact H.
  - split; [apply wf_bodies_ok; apply Hdoc|]. split; assumption.
Qed.

(** [list] and [list_all] on a rendering and on the rendering of the renamed tree under the renamed
    configuration: the same line ranges and statuses.  Strict domain. *)
Theorem list_rename_tag_names_unwrap : forall D rho cfg ds de f,
  admissible D rho -> cfg_ok D cfg -> tast_ok f -> names_in D f -> strict (to_ast f) ->
  good_delims ds de ->
  good_doc ds de (doc_of (to_ast f)) ->
  (forall t, In t (openers_of f) -> disjoint_from ds de (rho (tg_name t))) ->
  same_listing cfg (rename_cfg rho cfg) ds de
               (doc_of (to_ast f)) (doc_of (to_ast (rename_tast rho f))).
Proof.
  intros D rho cfg ds de f A C Hok Hd Hs Hgd Hdoc Hdis.
  destruct (good_renamed D rho ds de f A Hok Hd Hdoc Hdis) as (B & G' & B').
  apply listing_of_keys; try assumption.
  apply (item_keys_rename D rho cfg f A C Hok Hd Hs).
Qed.

(** Without unwrap-block elements. *)
Theorem list_rename_tag_names : forall D rho cfg ds de f,
  admissible D rho -> cfg_ok D cfg -> tast_ok f -> names_in D f -> no_unwrap (to_ast f) ->
  good_delims ds de ->
  good_doc ds de (doc_of (to_ast f)) ->
  (forall t, In t (openers_of f) -> disjoint_from ds de (rho (tg_name t))) ->
  same_listing cfg (rename_cfg rho cfg) ds de
               (doc_of (to_ast f)) (doc_of (to_ast (rename_tast rho f))).
Proof.
  intros D rho cfg ds de f A C Hok Hd Hn Hgd Hdoc Hdis.
  destruct (good_renamed D rho ds de f A Hok Hd Hdoc Hdis) as (B & G' & B').
  apply listing_of_keys; try assumption.
  apply (item_keys_rename_nu D rho cfg f A C Hok Hd Hn).
Qed.

(* ------------------------------------------------------------------------- *)
(** * Part 6: an instance

    [ru_tast] of [Proofs.RespellUnwrap] (a ready unwrap-block element [rm] whose kept lines carry a
    pending element [tl]) and the renaming [rho_ex] ([tl] to [time-limited], [rm] to
    [removal-marker]); delimiters "<!" and ">".  [list] shows the two wrapper parts of the
    unwrap-block (lines 2..3 and 6..7); [list_all] shows the pending element (line 4) between them. *)
Definition rl_doc : list item := doc_of (to_ast ru_tast).
Definition rl_doc' : list item := doc_of (to_ast (rename_tast rho_ex ru_tast)).
Definition rl_cfg : config := RenameTags.ex_cfg.
Definition rl_cfg' : config := rename_cfg rho_ex RenameTags.ex_cfg.

Example rl_keys :
  keys_of (ms <- list_markers rl_cfg id_ds id_de (render id_ds id_de rl_doc) ;;
           build_list (render id_ds id_de rl_doc) ms) = [(2, 3, true); (6, 7, true)] /\
  keys_of (ms <- list_markers rl_cfg' id_ds id_de (render id_ds id_de rl_doc') ;;
           build_list (render id_ds id_de rl_doc') ms) = [(2, 3, true); (6, 7, true)] /\
  keys_of (ms <- markers_all_of rl_cfg id_ds id_de (render id_ds id_de rl_doc) ;;
           build_list (render id_ds id_de rl_doc) ms) = [(2, 3, true); (4, 4, false); (6, 7, true)] /\
  keys_of (ms <- markers_all_of rl_cfg' id_ds id_de (render id_ds id_de rl_doc') ;;
           build_list (render id_ds id_de rl_doc') ms) = [(2, 3, true); (4, 4, false); (6, 7, true)] /\
  a_item_keys rl_cfg rl_doc = [(2, 3, true); (6, 7, true)] /\
  a_item_keys rl_cfg' rl_doc' = [(2, 3, true); (6, 7, true)] /\
  a_item_keys_all rl_cfg rl_doc = [(2, 3, true); (4, 4, false); (6, 7, true)] /\
  a_item_keys_all rl_cfg' rl_doc' = [(2, 3, true); (4, 4, false); (6, 7, true)].
Proof. repeat split; vm_compute; reflexivity. Qed.

(** The two renderings differ, and the old configuration lists nothing in the renamed one. *)
Example rl_differ :
  render id_ds id_de rl_doc <> render id_ds id_de rl_doc' /\
  keys_of (ms <- markers_all_of rl_cfg id_ds id_de (render id_ds id_de rl_doc') ;;
           build_list (render id_ds id_de rl_doc') ms) = [].
Proof. split; [vm_compute; discriminate | vm_compute; reflexivity]. Qed.

(** The statuses and the [unwrap-block] attributes of the instance. *)
Example rl_statuses :
  statuses rl_cfg (to_ast ru_tast) = [Some true; Some false] /\
  statuses rl_cfg' (to_ast (rename_tast rho_ex ru_tast)) = [Some true; Some false] /\
  unwraps (to_ast ru_tast) = [true; false].
Proof. repeat split; vm_compute; reflexivity. Qed.

(** The same from the theorem. *)
Example rl_theorem : same_listing rl_cfg rl_cfg' id_ds id_de rl_doc rl_doc'.
Proof.
  apply (list_rename_tag_names_unwrap name_dom rho_ex RenameTags.ex_cfg id_ds id_de ru_tast
           rho_ex_admissible ex_cfg_ok (proj1 ru_tast_ok) (tast_ok_names _ (proj1 ru_tast_ok))
           ru_strict id_delims ru_good ru_new_names).
Qed.

Example rl_abstract :
  a_item_keys rl_cfg' rl_doc' = a_item_keys rl_cfg rl_doc /\
  a_item_keys_all rl_cfg' rl_doc' = a_item_keys_all rl_cfg rl_doc.
Proof.
  apply (item_keys_rename name_dom rho_ex RenameTags.ex_cfg ru_tast
           rho_ex_admissible ex_cfg_ok (proj1 ru_tast_ok) (tast_ok_names _ (proj1 ru_tast_ok)) ru_strict).
Qed.

(** ** Why the line breaks of the tag bodies matter

    Without unwrap-block elements the markers correspond for any respelling ([forests_tr_nu]), but
    the line numbers do not: the opening tag [rm name='f'] respelled with a line break instead of
    the blank (same element, same decision, same tree) ends one line later.  Hence the hypothesis
    [shape_rel same_nl] (or [nonl]) of [item_keys_respell_nu_gen] cannot be dropped. *)
Definition rl_b_nl : str := [114;109;10;110;97;109;101;61;39;102;39]%N.        (* "rm\nname='f'" *)
Definition rl_f1 : list ast := [AT [97;10]%N; AE b_rm_ready b_rm_close [AT [120]%N]; AT [10;98]%N].
Definition rl_f2 : list ast := [AT [97;10]%N; AE rl_b_nl b_rm_close [AT [120]%N]; AT [10;98]%N].

Example rl_line_break_counterexample :
  RespellBodies.same_tree (fun _ _ => True) rl_f1 rl_f2 /\
  Forall ast_ok rl_f1 /\ Forall ast_ok rl_f2 /\ no_unwrap rl_f1 /\ no_unwrap rl_f2 /\
  statuses ac_cfg rl_f1 = statuses ac_cfg rl_f2 /\
  a_item_keys ac_cfg (doc_of rl_f1) = [(2, 2, true)] /\
  a_item_keys ac_cfg (doc_of rl_f2) = [(2, 3, true)] /\
  keys_of (ms <- list_markers ac_cfg id_ds id_de (render id_ds id_de (doc_of rl_f2)) ;;
           build_list (render id_ds id_de (doc_of rl_f2)) ms) = [(2, 3, true)].
Proof.
  split; [vm_compute; repeat split|].
  split; [apply forest_okb_sound; vm_compute; reflexivity|].
  split; [apply forest_okb_sound; vm_compute; reflexivity|].
  split; [apply no_unwrapb_sound; vm_compute; reflexivity|].
  split; [apply no_unwrapb_sound; vm_compute; reflexivity|].
  repeat split; vm_compute; reflexivity.
Qed.

Print Assumptions count_nl_tr_gen.
Print Assumptions count_nl_tr.
Print Assumptions a_line_tr.
Print Assumptions a_line_S_tr.
Print Assumptions a_key_tr.
Print Assumptions forests_tr_gen.
Print Assumptions forests_tr.
Print Assumptions forests_tr_strict.
Print Assumptions forests_tr_nu.
Print Assumptions merge_all_on.
Print Assumptions merge_all_markers_on.
Print Assumptions item_keys_respell_gen.
Print Assumptions item_keys_respell_nonl.
Print Assumptions item_keys_respell.
Print Assumptions item_keys_all_respell.
Print Assumptions item_keys_respell_nu_gen.
Print Assumptions item_keys_respell_nu_rel.
Print Assumptions item_keys_respell_nu.
Print Assumptions list_respell.
Print Assumptions list_respell_weak.
Print Assumptions list_respell_nu.
Print Assumptions list_respell_nu_nonl.
Print Assumptions statuses_rename.
Print Assumptions same_nl_rename.
Print Assumptions item_keys_rename.
Print Assumptions item_keys_rename_nu.
Print Assumptions list_rename_tag_names_unwrap.
Print Assumptions list_rename_tag_names.
Print Assumptions rl_keys.
Print Assumptions rl_differ.
Print Assumptions rl_statuses.
Print Assumptions rl_theorem.
Print Assumptions rl_abstract.
Print Assumptions rl_line_break_counterexample.
