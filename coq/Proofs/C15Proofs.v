(** C15: list reports the regions clean deletes. *)
From Coq Require Import List NArith ZArith Arith Bool Lia.
Import ListNotations.
From Chiri Require Import Base.Bytes Base.Res Model.Tokenizer Model.TagParser Model.TreeParser
     Model.Finders Model.Markers Model.Format Model.Clean Model.ListRender Proofs.ResLemmas Proofs.BytesLemmas.

(** The regions listed are exactly the markers clean removes, all with status Ready. *)
Lemma list_regions_are_clean_markers cfg ds de s ms :
  markers_of cfg ds de s = Ok ms ->
  list_markers cfg ds de s = Ok (map (fun v => (v, true)) ms).
Proof. intros H. unfold list_markers. rewrite H. reflexivity. Qed.

Lemma clean_uses_list_regions cfg ds de s ms :
  list_markers cfg ds de s = Ok ms ->
  exists markers, ms = map (fun v => (v, true)) markers /\
    clean cfg ds de s =
      (removed <- remove_markers s markers ;; removed_pos <- get_removed_pos markers ;; format removed removed_pos).
Proof.
  unfold list_markers, clean. intros H. inv_bind H. inv_ok.
  exists v. split; [reflexivity|]. rewrite Hb. reflexivity.
Qed.

(** Line numbers: [find_line (build_line_map s) i] is one plus the number of line breaks among the
    first [i + 1] bytes. *)
Definition count_nl (s : str) : nat := length (filter (fun b => beq b NL) s).

Lemma position_gt_shift m needle i :
  position_gt m needle (S i) = option_map S (position_gt m needle i).
Proof.
  revert i. induction m as [|v m IH]; intros i; simpl; [reflexivity|].
  destruct (needle <? v); [reflexivity | apply IH].
Qed.

Lemma find_line_cons v m needle :
  find_line (v :: m) needle = if needle <? v then 1 else 1 + find_line m needle.
Proof.
  unfold find_line. cbn [position_gt]. destruct (needle <? v); [reflexivity|].
  rewrite position_gt_shift. destruct (position_gt m needle 0); simpl; lia.
Qed.

Lemma find_line_from k s needle :
  find_line (build_line_map_from k s) needle = 1 + count_nl (firstn (S needle - k) s).
Proof.
  revert k. induction s as [|b s IH]; intros k.
  - simpl. rewrite firstn_nil. reflexivity.
  - cbn [build_line_map_from]. unfold count_nl in *.
    destruct (Nat.ltb_spec needle k) as [Hlt|Hge].
    + replace (S needle - k) with 0 by lia. cbn [firstn filter length].
      destruct (beq b NL).
      * rewrite find_line_cons. destruct (Nat.ltb_spec needle k); [reflexivity | lia].
      * rewrite IH. replace (S needle - S k) with 0 by lia. reflexivity.
    + replace (S needle - k) with (S (needle - k)) by lia. cbn [firstn filter].
      destruct (beq b NL) eqn:E.
      * rewrite find_line_cons. destruct (Nat.ltb_spec needle k); [lia|].
        rewrite IH. replace (S needle - S k) with (needle - k) by lia. simpl. reflexivity.
      * rewrite IH. replace (S needle - S k) with (needle - k) by lia. reflexivity.
Qed.

Theorem find_line_counts_line_breaks s needle :
  find_line (build_line_map s) needle = 1 + count_nl (firstn (S needle) s).
Proof.
  unfold build_line_map. rewrite find_line_from. rewrite Nat.sub_0_r. reflexivity.
Qed.
