(** The command-line wrapper [run] adds nothing to the library calls: input and output routes,
    mode dispatch, target sets (flags and configuration file) and the declared defaults. *)
From Coq Require Import List NArith ZArith Arith Bool Lia.
Import ListNotations.
From Chiri Require Import Base.Bytes Base.Res Model.Tokenizer Model.TagParser Model.TreeParser
     Model.Markers Model.Format Model.Clean Model.ListRender Model.Cli
     Proofs.ResLemmas Proofs.BytesLemmas Proofs.C04Proofs.

(** * Record updates used in the statements *)

Definition set_filename (a : args) (f : option str) : args :=
  mkArgs f (a_output a) (a_delimiter_start a) (a_delimiter_end a)
         (a_time_limited_tag_name a) (a_time_limited_time_offset a) (a_current a)
         (a_removal_marker_tag_name a) (a_removal_marker_target_name a)
         (a_removal_marker_target_config a) (a_list a) (a_list_all a) (a_list_json a).

Definition set_output (a : args) (f : option str) : args :=
  mkArgs (a_filename a) f (a_delimiter_start a) (a_delimiter_end a)
         (a_time_limited_tag_name a) (a_time_limited_time_offset a) (a_current a)
         (a_removal_marker_tag_name a) (a_removal_marker_target_name a)
         (a_removal_marker_target_config a) (a_list a) (a_list_all a) (a_list_json a).

Definition set_targets (a : args) (flags : list str) (file : option str) : args :=
  mkArgs (a_filename a) (a_output a) (a_delimiter_start a) (a_delimiter_end a)
         (a_time_limited_tag_name a) (a_time_limited_time_offset a) (a_current a)
         (a_removal_marker_tag_name a) flags file (a_list a) (a_list_all a) (a_list_json a).

(** * 1. The input route does not matter *)

Theorem run_input_route : forall a stdin fs f content,
  fs f = Some content ->
  run (set_filename a (Some f)) stdin fs = run (set_filename a None) (Some content) fs.
Proof.
  intros a stdin fs f content Hf.
  unfold run, set_filename; cbn [a_filename a_removal_marker_target_config a_output].
  rewrite Hf. reflexivity.
Qed.

(** * 2. The output route does not change the bytes *)

(** [run] up to the point where the output route is chosen: it does not look at [a_output]. *)
Definition run_core (a : args) (stdin : option str) (fs : str -> option str) : option outcome + str :=
  match a_filename a with
  | None =>
    match stdin with
    | None => inl (Some (Exit 1 NO_INPUT None))
    | Some content =>
      match (match a_removal_marker_target_config a with
             | None => Some []
             | Some f => match fs f with Some c => Some (buf_lines c []) | None => None end
             end) with
      | None => inl None
      | Some ft => match dispatch a (config_of a ft) content with
                   | Panic => inl None
                   | Ok output => inr output
                   end
      end
    end
  | Some f =>
    match fs f with
    | None => inl None
    | Some content =>
      match (match a_removal_marker_target_config a with
             | None => Some []
             | Some f => match fs f with Some c => Some (buf_lines c []) | None => None end
             end) with
      | None => inl None
      | Some ft => match dispatch a (config_of a ft) content with
                   | Panic => inl None
                   | Ok output => inr output
                   end
      end
    end
  end.

Lemma run_core_spec a stdin fs :
  run a stdin fs =
  match run_core a stdin fs with
  | inl (Some o) => o
  | inl None => Crash
  | inr output => match a_output a with
                  | Some f => Exit 0 [] (Some (f, output))
                  | None => Exit 0 output None
                  end
  end.
Proof.
  unfold run, run_core.
  destruct (a_filename a) as [f|].
  - destruct (fs f) as [content|]; [|reflexivity].
    destruct (a_removal_marker_target_config a) as [g|].
    + destruct (fs g) as [c|]; [|reflexivity].
      destruct (dispatch a (config_of a (buf_lines c [])) content); reflexivity.
    + destruct (dispatch a (config_of a []) content); reflexivity.
  - destruct stdin as [content|]; [|reflexivity].
    destruct (a_removal_marker_target_config a) as [g|].
    + destruct (fs g) as [c|]; [|reflexivity].
      destruct (dispatch a (config_of a (buf_lines c [])) content); reflexivity.
    + destruct (dispatch a (config_of a []) content); reflexivity.
Qed.

Lemma dispatch_set_output a o cfg c : dispatch (set_output a o) cfg c = dispatch a cfg c.
Proof. reflexivity. Qed.

Lemma config_of_set_output a o ft : config_of (set_output a o) ft = config_of a ft.
Proof. reflexivity. Qed.

Lemma run_core_set_output a o stdin fs : run_core (set_output a o) stdin fs = run_core a stdin fs.
Proof. reflexivity. Qed.

(** Early exits of [run_core] are always [Exit 1 NO_INPUT None]. *)
Lemma run_core_early a stdin fs o :
  run_core a stdin fs = inl (Some o) -> o = Exit 1 NO_INPUT None.
Proof.
  unfold run_core.
  destruct (a_filename a) as [g|].
  - destruct (fs g); [|discriminate].
    destruct (a_removal_marker_target_config a) as [h|].
    + destruct (fs h); [|discriminate].
      destruct (dispatch _ _ _); discriminate.
    + destruct (dispatch _ _ _); discriminate.
  - destruct stdin; [|intros E; inversion E; reflexivity].
    destruct (a_removal_marker_target_config a) as [h|].
    + destruct (fs h); [|discriminate].
      destruct (dispatch _ _ _); discriminate.
    + destruct (dispatch _ _ _); discriminate.
Qed.

(** The three cases, as separate lemmas (preferred form). *)
Lemma run_output_route_ok : forall a stdin fs f out,
  run (set_output a None) stdin fs = Exit 0 out None ->
  run (set_output a (Some f)) stdin fs = Exit 0 [] (Some (f, out)).
Proof.
  intros a stdin fs f out.
  rewrite !run_core_spec, !run_core_set_output.
  cbn [a_output set_output].
  destruct (run_core a stdin fs) as [[o|]|output] eqn:E; intros H.
  - apply run_core_early in E. subst o. discriminate H.
  - discriminate H.
  - inversion H; subst. reflexivity.
Qed.

Lemma run_output_route_exit : forall a stdin fs f code out w,
  run (set_output a None) stdin fs = Exit code out w ->
  code <> 0 ->
  run (set_output a (Some f)) stdin fs = Exit code out w.
Proof.
  intros a stdin fs f code out w.
  rewrite !run_core_spec, !run_core_set_output.
  cbn [a_output set_output].
  destruct (run_core a stdin fs) as [[o|]|output] eqn:E; intros H Hc.
  - exact H.
  - discriminate H.
  - inversion H; subst. exfalso. apply Hc. reflexivity.
Qed.

Lemma run_output_route_crash : forall a stdin fs f,
  run (set_output a None) stdin fs = Crash ->
  run (set_output a (Some f)) stdin fs = Crash.
Proof.
  intros a stdin fs f.
  rewrite !run_core_spec, !run_core_set_output.
  cbn [a_output set_output].
  destruct (run_core a stdin fs) as [[o|]|output] eqn:E; intros H.
  - exact H.
  - reflexivity.
  - discriminate H.
Qed.

(** The statement as one pattern match. *)
Theorem run_output_route : forall a stdin fs f,
  match run (set_output a None) stdin fs with
  | Exit 0 out None => run (set_output a (Some f)) stdin fs = Exit 0 [] (Some (f, out))
  | Exit code out w => code <> 0 -> run (set_output a (Some f)) stdin fs = Exit code out w
  | Crash => run (set_output a (Some f)) stdin fs = Crash
  end.
Proof.
  intros a stdin fs f.
  destruct (run (set_output a None) stdin fs) as [code out w|] eqn:E.
  - destruct code as [|code].
    + destruct w as [p|].
      * intros Hc. exfalso. apply Hc. reflexivity.
      * apply run_output_route_ok. exact E.
    + intros Hc. apply run_output_route_exit; assumption.
  - apply run_output_route_crash. exact E.
Qed.

(** The bytes are the same on both routes, whatever [f] is (in particular the input file). *)
Corollary run_output_route_same_bytes : forall a stdin fs f out,
  run (set_output a None) stdin fs = Exit 0 out None <->
  run (set_output a (Some f)) stdin fs = Exit 0 [] (Some (f, out)).
Proof.
  intros a stdin fs f out. split; [apply run_output_route_ok|].
  rewrite !run_core_spec, !run_core_set_output.
  cbn [a_output set_output].
  destruct (run_core a stdin fs) as [[o|]|output] eqn:E; intros H.
  - apply run_core_early in E. subst o. discriminate H.
  - discriminate H.
  - inversion H; subst. reflexivity.
Qed.

(** * 3. The result is the library result for the corresponding configuration *)

Theorem run_is_library_call : forall a stdin fs content ft,
  (match a_filename a with None => stdin | Some f => fs f end) = Some content ->
  (match a_removal_marker_target_config a with
   | None => Some []
   | Some f => option_map (fun c => buf_lines c []) (fs f)
   end) = Some ft ->
  a_output a = None ->
  run a stdin fs = match dispatch a (config_of a ft) content with
                   | Ok out => Exit 0 out None
                   | Panic => Crash
                   end.
Proof.
  intros a stdin fs content ft Hin Hft Hout.
  unfold run. rewrite Hout.
  assert (Hinput :
    match a_filename a with
    | None => match stdin with Some c => inl (Some c) | None => inr tt end
    | Some f => inl (fs f)
    end = (inl (Some content) : option str + unit)).
  { destruct (a_filename a) as [g|]; [rewrite Hin; reflexivity|].
    subst stdin. reflexivity. }
  rewrite Hinput.
  assert (Hfile :
    match a_removal_marker_target_config a with
    | None => Some []
    | Some f => match fs f with Some c => Some (buf_lines c []) | None => None end
    end = Some ft).
  { destruct (a_removal_marker_target_config a) as [g|]; [|exact Hft].
    destruct (fs g); exact Hft. }
  rewrite Hfile.
  destruct (dispatch a (config_of a ft) content); reflexivity.
Qed.

(** * 4. Mode dispatch *)

Theorem dispatch_modes : forall a cfg c,
  (a_list a = true ->
   dispatch a cfg c = if a_list_json a then list_json cfg (a_delimiter_start a) (a_delimiter_end a) c
                      else list_pretty cfg (a_delimiter_start a) (a_delimiter_end a) c) /\
  (a_list a = false -> a_list_all a = true ->
   dispatch a cfg c = if a_list_json a then list_all_json cfg (a_delimiter_start a) (a_delimiter_end a) c
                      else list_all_pretty cfg (a_delimiter_start a) (a_delimiter_end a) c) /\
  (a_list a = false -> a_list_all a = false ->
   dispatch a cfg c = clean cfg (a_delimiter_start a) (a_delimiter_end a) c).
Proof.
  intros a cfg c. unfold dispatch. repeat split.
  - intros ->. reflexivity.
  - intros -> ->. reflexivity.
  - intros -> ->. reflexivity.
Qed.

(** * 5. The library depends on the target set only through membership *)

Definition with_targets (cfg : config) (t : list str) : config :=
  mkConfig (tl_tag cfg) (tl_offset cfg) (now cfg) (rm_tag cfg) t.

Lemma existsb_str_eqb_ext v t1 t2 :
  (forall v, In v t1 <-> In v t2) ->
  existsb (str_eqb v) t1 = existsb (str_eqb v) t2.
Proof.
  intros H. apply eq_true_iff_eq. rewrite !existsb_str_eqb_In. apply H.
Qed.

Lemma marker_is_removal_ext t1 t2 el :
  (forall v, In v t1 <-> In v t2) ->
  marker_is_removal t1 el = marker_is_removal t2 el.
Proof.
  intros H. unfold marker_is_removal.
  destruct (find_attr S_NAME (el_attrs el)) as [[k [v|]]|]; try reflexivity.
  apply existsb_str_eqb_ext. exact H.
Qed.

Lemma status_ext cfg t1 t2 el :
  (forall v, In v t1 <-> In v t2) ->
  status (with_targets cfg t1) el = status (with_targets cfg t2) el.
Proof.
  intros H. unfold status, evaluator, with_targets; cbn [rm_tag tl_tag tl_offset now targets].
  destruct (is_skip el); [reflexivity|].
  destruct (str_eqb (el_name el) (rm_tag cfg)).
  - f_equal. apply marker_is_removal_ext. exact H.
  - reflexivity.
Qed.

Lemma element_range_ext cfg t1 t2 content pending el st et :
  (forall v, In v t1 <-> In v t2) ->
  element_range (with_targets cfg t1) content pending el st et
  = element_range (with_targets cfg t2) content pending el st et.
Proof.
  intros H. unfold element_range. rewrite (status_ext cfg t1 t2 el H). reflexivity.
Qed.

Lemma collect_fold_ext cfg1 cfg2 content pending (l : list part) :
  Forall (fun c => collect_part cfg1 content pending c = collect_part cfg2 content pending c) l ->
  forall acc,
    fold_left (collect_step cfg1 content pending) l acc
    = fold_left (collect_step cfg2 content pending) l acc.
Proof.
  induction 1 as [|c l Hc _ IH]; intros acc; simpl; [reflexivity|].
  unfold collect_step at 2 4. rewrite Hc. apply IH.
Qed.

Lemma collect_part_ext cfg t1 t2 content pending p :
  (forall v, In v t1 <-> In v t2) ->
  collect_part (with_targets cfg t1) content pending p
  = collect_part (with_targets cfg t2) content pending p.
Proof.
  intros H. induction p as [t | el st et ch IH] using part_ind'; [reflexivity|].
  cbn [collect_part].
  change (fun acc c => let '(x, y) := collect_part (with_targets cfg t1) content pending c in
                       (fst acc ++ x, snd acc ++ y))
    with (collect_step (with_targets cfg t1) content pending).
  change (fun acc c => let '(x, y) := collect_part (with_targets cfg t2) content pending c in
                       (fst acc ++ x, snd acc ++ y))
    with (collect_step (with_targets cfg t2) content pending).
  rewrite (collect_fold_ext _ _ content pending ch IH).
  rewrite (element_range_ext cfg t1 t2 content pending el st et H).
  reflexivity.
Qed.

Lemma collect_ext cfg t1 t2 content pending parts :
  (forall v, In v t1 <-> In v t2) ->
  collect (with_targets cfg t1) content pending parts
  = collect (with_targets cfg t2) content pending parts.
Proof.
  intros H. unfold collect.
  change (fun acc c => let '(x, y) := collect_part (with_targets cfg t1) content pending c in
                       (fst acc ++ x, snd acc ++ y))
    with (collect_step (with_targets cfg t1) content pending).
  change (fun acc c => let '(x, y) := collect_part (with_targets cfg t2) content pending c in
                       (fst acc ++ x, snd acc ++ y))
    with (collect_step (with_targets cfg t2) content pending).
  apply collect_fold_ext. apply Forall_forall. intros c _. apply collect_part_ext. exact H.
Qed.

Lemma build_remove_marker_ext cfg t1 t2 content parts :
  (forall v, In v t1 <-> In v t2) ->
  build_remove_marker (with_targets cfg t1) content parts
  = build_remove_marker (with_targets cfg t2) content parts.
Proof.
  intros H. unfold build_remove_marker. rewrite (collect_ext cfg t1 t2 content false parts H).
  reflexivity.
Qed.

Lemma build_remove_marker_all_ext cfg t1 t2 content parts :
  (forall v, In v t1 <-> In v t2) ->
  build_remove_marker_all (with_targets cfg t1) content parts
  = build_remove_marker_all (with_targets cfg t2) content parts.
Proof.
  intros H. unfold build_remove_marker_all. rewrite (collect_ext cfg t1 t2 content true parts H).
  reflexivity.
Qed.

Lemma markers_of_ext cfg t1 t2 ds de s :
  (forall v, In v t1 <-> In v t2) ->
  markers_of (with_targets cfg t1) ds de s = markers_of (with_targets cfg t2) ds de s.
Proof.
  intros H. unfold markers_of. destruct (front_end ds de s) as [parsed|]; [|reflexivity].
  cbn [bind]. apply build_remove_marker_ext. exact H.
Qed.

Lemma markers_all_of_ext cfg t1 t2 ds de s :
  (forall v, In v t1 <-> In v t2) ->
  markers_all_of (with_targets cfg t1) ds de s = markers_all_of (with_targets cfg t2) ds de s.
Proof.
  intros H. unfold markers_all_of. destruct (front_end ds de s) as [parsed|]; [|reflexivity].
  cbn [bind]. apply build_remove_marker_all_ext. exact H.
Qed.

Theorem targets_only_by_membership : forall cfg t1 t2 ds de s,
  (forall v, In v t1 <-> In v t2) ->
  clean (with_targets cfg t1) ds de s = clean (with_targets cfg t2) ds de s /\
  list_pretty (with_targets cfg t1) ds de s = list_pretty (with_targets cfg t2) ds de s /\
  list_json (with_targets cfg t1) ds de s = list_json (with_targets cfg t2) ds de s /\
  list_all_pretty (with_targets cfg t1) ds de s = list_all_pretty (with_targets cfg t2) ds de s /\
  list_all_json (with_targets cfg t1) ds de s = list_all_json (with_targets cfg t2) ds de s.
Proof.
  intros cfg t1 t2 ds de s H.
  pose proof (markers_of_ext cfg t1 t2 ds de s H) as Hm.
  pose proof (markers_all_of_ext cfg t1 t2 ds de s H) as Ha.
  unfold clean, list_pretty, list_json, list_all_pretty, list_all_json, list_markers.
  rewrite Hm, Ha. repeat split; reflexivity.
Qed.

(** Consequences: any configuration is [with_targets] of itself; order and repetition of the
    targets are irrelevant for every mode of the command line. *)
Lemma with_targets_self cfg : with_targets cfg (targets cfg) = cfg.
Proof. destruct cfg; reflexivity. Qed.

Corollary dispatch_targets_only_by_membership : forall a cfg t1 t2 c,
  (forall v, In v t1 <-> In v t2) ->
  dispatch a (with_targets cfg t1) c = dispatch a (with_targets cfg t2) c.
Proof.
  intros a cfg t1 t2 c H.
  destruct (targets_only_by_membership cfg t1 t2 (a_delimiter_start a) (a_delimiter_end a) c H)
    as (Hc & Hp & Hj & Hap & Haj).
  unfold dispatch. rewrite Hc, Hp, Hj, Hap, Haj. reflexivity.
Qed.

(** * 6. The target configuration file *)

Lemma strip_cr_snoc_cr n : Cli.strip_cr (n ++ [CR]) = n.
Proof.
  unfold Cli.strip_cr. rewrite rev_app_distr. cbn [rev app].
  rewrite beq_refl. apply rev_involutive.
Qed.

Lemma strip_cr_no_cr n : (forall pre, n <> pre ++ [CR]) -> Cli.strip_cr n = n.
Proof.
  intros H. unfold Cli.strip_cr. destruct (rev n) as [|b r] eqn:E; [reflexivity|].
  destruct (beq b CR) eqn:Eb; [|reflexivity].
  exfalso. apply beq_eq in Eb. subst b. apply (H (rev r)).
  rewrite <- (rev_involutive n), E. reflexivity.
Qed.

(** One line, for any accumulated prefix [cur]. *)
Lemma buf_lines_line n : forall cur rest,
  ~ In NL n ->
  buf_lines (n ++ NL :: rest) cur = Cli.strip_cr (cur ++ n) :: buf_lines rest [].
Proof.
  induction n as [|b n IH]; intros cur rest Hn.
  - cbn [app buf_lines]. rewrite beq_refl, app_nil_r. reflexivity.
  - cbn [app buf_lines].
    assert (Hb : beq b NL = false).
    { apply beq_neq. intros ->. apply Hn. left. reflexivity. }
    rewrite Hb. rewrite IH by (intros Hin; apply Hn; right; exact Hin).
    rewrite <- app_assoc. reflexivity.
Qed.

Theorem buf_lines_names : forall (names : list str) (crlf : bool),
  (forall n, In n names -> ~ In NL n /\ (forall pre, n <> pre ++ [CR])) ->
  buf_lines (flat_map (fun n => n ++ (if crlf then [CR; NL] else [NL])) names) [] = names.
Proof.
  intros names crlf. induction names as [|n names IH]; intros H; [reflexivity|].
  cbn [flat_map].
  destruct (H n (or_introl eq_refl)) as [Hnl Hcr].
  assert (IH' := IH (fun m Hm => H m (or_intror Hm))). clear IH.
  destruct crlf.
  - rewrite <- app_assoc.
    change (n ++ [CR; NL] ++ ?r) with (n ++ [CR] ++ NL :: r).
    rewrite app_assoc.
    rewrite buf_lines_line.
    + cbn [app]. rewrite strip_cr_snoc_cr, IH'. reflexivity.
    + intros Hin. apply in_app_or in Hin. destruct Hin as [Hin|[Hin|[]]]; [exact (Hnl Hin)|].
      discriminate Hin.
  - rewrite <- app_assoc. cbn [app].
    rewrite buf_lines_line by exact Hnl.
    cbn [app]. rewrite strip_cr_no_cr by exact Hcr. rewrite IH'. reflexivity.
Qed.

Theorem config_file_equals_flags : forall a stdin fs names (crlf : bool) cfgfile,
  a_removal_marker_target_config a = None ->
  (forall n, In n names -> ~ In NL n /\ (forall pre, n <> pre ++ [CR])) ->
  fs cfgfile = Some (flat_map (fun n => n ++ (if crlf then [CR; NL] else [NL])) names) ->
  run (set_targets a (a_removal_marker_target_name a) (Some cfgfile)) stdin fs
  = run (set_targets a (names ++ a_removal_marker_target_name a) None) stdin fs.
Proof.
  intros a stdin fs names crlf cfgfile _ Hnames Hfs.
  unfold run, set_targets;
    cbn [a_filename a_removal_marker_target_config a_removal_marker_target_name a_output].
  rewrite Hfs, (buf_lines_names names crlf Hnames).
  reflexivity.
Qed.

(** * 7. Defaults *)

Theorem defaults_are_documented : forall now,
  a_removal_marker_target_name (default_args now) = [] /\
  a_removal_marker_target_config (default_args now) = None /\
  targets (config_of (default_args now) []) = [] /\
  a_delimiter_start (default_args now) = D_DELIM_START /\
  a_delimiter_end (default_args now) = D_DELIM_END /\
  a_time_limited_tag_name (default_args now) = D_TL_TAG /\
  a_removal_marker_tag_name (default_args now) = D_RM_TAG /\
  a_time_limited_time_offset (default_args now) = D_OFFSET.
Proof. intros now. repeat split; reflexivity. Qed.

Print Assumptions run_input_route.
Print Assumptions run_output_route.
Print Assumptions run_output_route_ok.
Print Assumptions run_output_route_exit.
Print Assumptions run_output_route_crash.
Print Assumptions run_is_library_call.
Print Assumptions dispatch_modes.
Print Assumptions targets_only_by_membership.
Print Assumptions buf_lines_names.
Print Assumptions config_file_equals_flags.
Print Assumptions defaults_are_documented.
