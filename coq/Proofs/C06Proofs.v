(** C06: the marker / skip decision. *)
From Coq Require Import List NArith ZArith Arith Bool Lia.
Import ListNotations.
From Chiri Require Import Base.Bytes Base.Res Model.Tokenizer Model.TagParser Model.TreeParser
     Model.Chrono Model.Markers Proofs.BytesLemmas.

(** The first attribute with a given name. *)
Lemma find_attr_some name attrs a v :
  find_attr name attrs = Some (a, v) -> a = name /\ In (name, v) attrs.
Proof.
  unfold find_attr. intros H. apply find_some in H. destruct H as [Hin E].
  simpl in E. apply str_eqb_eq in E. subst. split; [reflexivity | exact Hin].
Qed.

Lemma has_attr_iff name attrs : has_attr name attrs = true <-> exists v, In (name, v) attrs.
Proof.
  unfold has_attr. rewrite existsb_exists. split.
  - intros [[a v] [Hin E]]. simpl in E. apply str_eqb_eq in E. subst. exists v. exact Hin.
  - intros [v Hin]. exists (name, v). split; [exact Hin | apply str_eqb_refl].
Qed.

(** An element carrying `skip` anywhere among its attributes is never ready nor pending. *)
Lemma skip_wins cfg el v :
  In (S_SKIP, v) (el_attrs el) -> status cfg el = None.
Proof.
  intros H. unfold status, is_skip.
  assert (E : has_attr S_SKIP (el_attrs el) = true) by (apply has_attr_iff; exists v; exact H).
  rewrite E. reflexivity.
Qed.

(** The word inside a quoted value is not an attribute: only attribute names count. *)
Lemma skip_only_by_name el :
  (forall v, ~ In (S_SKIP, v) (el_attrs el)) -> is_skip el = false.
Proof.
  intros H. unfold is_skip. destruct (has_attr S_SKIP (el_attrs el)) eqn:E; [|reflexivity].
  apply has_attr_iff in E. destruct E as [v Hv]. exfalso. eapply H; eauto.
Qed.

Lemma marker_ready_iff targets el :
  marker_is_removal targets el = true <->
  exists v, find_attr S_NAME (el_attrs el) = Some (S_NAME, Some v) /\ In v targets.
Proof.
  unfold marker_is_removal. split.
  - destruct (find_attr S_NAME (el_attrs el)) as [[a [v|]]|] eqn:E; try discriminate.
    intros H. apply existsb_str_eqb_In in H.
    pose proof (find_attr_some _ _ _ _ E) as [-> _]. exists v. split; [reflexivity | exact H].
  - intros [v [E Hin]]. rewrite E. apply existsb_str_eqb_In. exact Hin.
Qed.

Lemma marker_empty_targets el : marker_is_removal [] el = false.
Proof.
  unfold marker_is_removal. destruct (find_attr S_NAME (el_attrs el)) as [[a [v|]]|]; reflexivity.
Qed.

(** Membership is whole-string and case-sensitive: it is list membership of the exact byte string. *)
Lemma marker_not_member targets el v :
  find_attr S_NAME (el_attrs el) = Some (S_NAME, Some v) -> ~ In v targets ->
  marker_is_removal targets el = false.
Proof.
  intros E H. destruct (marker_is_removal targets el) eqn:M; [|reflexivity].
  apply marker_ready_iff in M. destruct M as [v' [E' Hin]]. rewrite E in E'. inversion E'; subst. contradiction.
Qed.

Theorem status_ready_iff cfg el :
  status cfg el = Some true <->
  is_skip el = false /\
  ((el_name el = rm_tag cfg /\ marker_is_removal (targets cfg) el = true) \/
   (el_name el <> rm_tag cfg /\ el_name el = tl_tag cfg /\
    time_is_removal (tl_offset cfg) (now cfg) el = true)).
Proof.
  unfold status, evaluator.
  destruct (is_skip el); [split; [discriminate | intros [H _]; discriminate]|].
  destruct (str_eqb (el_name el) (rm_tag cfg)) eqn:Erm.
  - apply str_eqb_eq in Erm. split.
    + intros H. injection H as H'. split; [reflexivity|]. left. split; [exact Erm | exact H'].
    + intros [_ [[_ H]|[H _]]]; [rewrite H; reflexivity | contradiction].
  - apply str_eqb_neq in Erm.
    destruct (str_eqb (el_name el) (tl_tag cfg)) eqn:Etl.
    + apply str_eqb_eq in Etl. split.
      * intros H. injection H as H'. split; [reflexivity|]. right. split; [exact Erm|]. split; [exact Etl | exact H'].
      * intros [_ [[H _]|[_ [_ H]]]]; [contradiction | rewrite H; reflexivity].
    + apply str_eqb_neq in Etl. split; [discriminate|].
      intros [_ [[H _]|[_ [H _]]]]; contradiction.
Qed.

(** Elements whose tag name is not one of the two configured names are never ready nor pending. *)
Lemma unregistered_never cfg el :
  el_name el <> rm_tag cfg -> el_name el <> tl_tag cfg -> status cfg el = None.
Proof.
  intros H1 H2. unfold status, evaluator.
  apply str_eqb_neq in H1. apply str_eqb_neq in H2. rewrite H1, H2.
  destruct (is_skip el); reflexivity.
Qed.

(** With an empty target set no removal-marker is ready. *)
Lemma empty_targets_never cfg el :
  targets cfg = [] -> el_name el = rm_tag cfg -> status cfg el <> Some true.
Proof.
  intros Ht Hn H. apply status_ready_iff in H. destruct H as [_ [[_ H]|[H _]]]; [|contradiction].
  rewrite Ht, marker_empty_targets in H. discriminate.
Qed.
