(** C19, second half, WITH unwrap-block elements: cleaning with a configuration [cfg1] and then with
    a configuration [cfg2] under which everything ready under [cfg1] is still ready gives, up to
    whitespace, the same text as cleaning once with [cfg2].

    Proved for the renderings of abstract syntax trees in the domain [strict2]: the domain
    [strict] of [Proofs.IdempotentUnwrap] (wrapper lines carry no tags, no line break inside a
    tag body) and, for an unwrap-block element with the children [AT t1 :: mid ++ [AT t2]], the
    two wrapper lines next to the tags are code lines:
      t1 = r1 ++ NL :: w1 ++ NL :: rest1,  no line break in r1, w1,  w1 has a non-whitespace byte,
      t2 = rest2 ++ NL :: w2 ++ NL :: r2,  no line break in w2, r2,  w2 has a non-whitespace byte.

    The route is positional (over the symbol list [flat (doc_of f)]), not through a skeleton:
    Part A: the formatter never deletes a line break that follows code on its line
            ([nl_after_code_kept]); what the left end of a seam range looks like.
    Part B: the same over the symbol list of a rendering ([clean_rendered_pairs2]).
    Part C: ranks: deleting by a mask and the finders of the unwrap-block strategy.
    Part D: up to whitespace the output of [clean] is the input without the ranges of the marker
            stage ([clean_nonws_markers]); masks that agree on the non-whitespace symbols.
    Part E: the domain [strict2], on trees and on documents.
    Part F: the mask of one run on a strict tree, with what is needed about whitespace
            ([clean_run_mask2]).
    Part G: the nodes of the masked and normalised tree, with their symbol positions.
    Part H: the marker stage of the second run against the marker stage of the single run
            ([node_step], [clean_run_then]); the theorem [clean_composes_strict]; no tag is
            stranded, positionally ([clean_steps_tags_strict]) and, under the one premise that is
            not proved here, as a statement about trees ([clean_steps_not_stranded_if]).
    Part I: a decision procedure for [strict2]; an instance ([cu_composes]); a counterexample in
            the domain [strict] with both wrapper lines empty ([cx_not_composes]): the condition
            on the wrapper lines cannot be dropped altogether. *)
From Coq Require Import List NArith ZArith Arith Bool Lia PeanoNat Permutation.
Import ListNotations.
From Chiri Require Import Base.Bytes Base.Res Model.Tokenizer Model.TagParser Model.TreeParser
     Model.Finders Model.Markers Model.Format Model.Clean
     Spec.Ranges Spec.Forest Spec.Rename Spec.Simulation Spec.Lines Spec.Extents
     Proofs.ResLemmas Proofs.BytesLemmas Proofs.Utf8 Proofs.MarkerProofs Proofs.RangeProofs Proofs.CollectProofs
     Proofs.FormatterProofs Proofs.FormatAssembly Proofs.BlockProofs Proofs.SeamProofs
     Proofs.CleanProofs Proofs.ConfinedProofs
     Proofs.RenameProofs Proofs.SimFlat Proofs.SimStrings Proofs.SimFront Proofs.MonoMap
     Proofs.SimClean Proofs.WellNested Proofs.DocMask Proofs.AstCollect Proofs.Idempotent
     Proofs.UnwrapDoc Proofs.C05Proofs Proofs.C06Proofs Proofs.CliProofs Proofs.Compose
     Proofs.IdempotentUnwrap.

(* ------------------------------------------------------------------------- *)
(** * Part A: the formatter keeps the line break after code *)

(** The left end [a] of the range of a seam formatter at [p]: nothing in front of the seam goes,
    or the range starts just behind a line break. *)
Definition lstart (s : str) (p a : nat) : Prop :=
  a = p \/ (a < p /\ exists q, a = S q /\ nth_error s q = Some NL).

Lemma indent_remover_left s p a b : indent_remover s p = Ok (a, b) -> lstart s p a.
Proof.
  unfold indent_remover. intros H.
  match type of H with (if ?c then _ else _) = _ => destruct c end.
  - inversion H. left. reflexivity.
  - destruct (indent_loop s p) as [c|] eqn:IL.
    + inversion H; subst a b. apply indent_loop_spec in IL.
      destruct IL as (c' & -> & H1 & H2 & _).
      destruct (Nat.eq_dec (S c') p) as [E|E]; [left; exact E | right].
      split; [lia|]. exists c'. split; [reflexivity | exact H2].
    + inversion H. left. reflexivity.
Qed.

Lemma empty_line_remover_left s p a b : empty_line_remover s p = Ok (a, b) -> lstart s p a.
Proof.
  unfold empty_line_remover. intros H.
  destruct (negb (is_boundary s p)); [discriminate H|].
  destruct (negb match nth_error s p with Some b0 => beq b0 NL | None => false end);
    [inversion H; left; reflexivity|].
  destruct (negb (residue_is_blank s p)); [inversion H; left; reflexivity|].
  destruct (is_none (two_next s p) && is_none (two_prev s p)); inversion H; left; reflexivity.
Qed.

Lemma prev_line_break_remover_left s p a b : prev_line_break_remover s p = Ok (a, b) -> lstart s p a.
Proof.
  unfold prev_line_break_remover. intros H.
  destruct (two_prev s p) as [lb|] eqn:T; [|inversion H; left; reflexivity].
  inversion H; subst a b. unfold two_prev in T.
  destruct (find_prev_lb s p true) as [q|] eqn:F1; [|discriminate T].
  apply find_prev_lb_some in F1. apply find_prev_lb_some in T.
  destruct F1 as (F1 & _). destruct T as (T1 & _ & T3 & _).
  right. split; [lia|]. exists lb. split; [lia | exact T3].
Qed.

Lemma next_line_break_remover_left s p a b : next_line_break_remover s p = Ok (a, b) -> lstart s p a.
Proof.
  unfold next_line_break_remover. intros H.
  destruct (negb (is_boundary s p)); [inversion H; left; reflexivity|].
  destruct (negb (residue_is_blank s p)); [inversion H; left; reflexivity|].
  destruct (two_next s p); inversion H; left; reflexivity.
Qed.

Lemma lstart_min s p a a' : lstart s p a -> lstart s p a' -> lstart s p (Nat.min a a').
Proof. intros H H'. destruct (Nat.min_spec a a') as [[_ ->]|[_ ->]]; assumption. Qed.

Lemma fb_fold_left s p : forall fs,
  (forall f a b, In f fs -> f s p = Ok (a, b) -> lstart s p a) ->
  forall r0 r, lstart s p (fst r0) -> foldM (fb_step s p) fs r0 = Ok r -> lstart s p (fst r).
Proof.
  induction fs as [|f fs IH]; intros Hall r0 r G H; cbn [foldM] in H.
  - inversion H; subst r. exact G.
  - unfold fb_step at 1 in H.
    destruct (f s p) as [[a b]|] eqn:E; cbn [bind] in H; [|discriminate H].
    apply (IH (fun g a' b' Hg => Hall g a' b' (or_intror Hg)) _ r) in H; [exact H|].
    cbn [fst]. apply lstart_min; [|exact G]. apply (Hall f a b); [left; reflexivity | exact E].
Qed.

Lemma seam_hull_left s p a b : seam_hull_of s p = Ok (a, b) -> lstart s p a.
Proof.
  intros H. rewrite seam_hull_of_unfold in H.
  apply (fb_fold_left s p seam_formatters) with (r0 := (p, p)) (r := (a, b)) in H; [exact H| |].
  - intros f a' b' Hin E. unfold seam_formatters in Hin. cbn [In] in Hin.
    destruct Hin as [<-|[<-|[<-|[<-|[]]]]].
    + apply (indent_remover_left s p a' b' E).
    + apply (empty_line_remover_left s p a' b' E).
    + apply (prev_line_break_remover_left s p a' b' E).
    + apply (next_line_break_remover_left s p a' b' E).
  - left. reflexivity.
Qed.

(** Where the deleted positions come from (the first half of the proof of [format_confined]). *)
Lemma format_ranges_origin s rpos rs :
  wf_utf8 s = true ->
  (forall p pi, In (p, pi) rpos -> p <= length s /\ is_boundary s p = true) ->
  (forall p pi, In (p, Some pi) rpos -> pi < length rpos) ->
  format_ranges s rpos = Ok rs ->
  forall i, in_ranges rs i ->
  exists r, in_range r i /\ (seam_origin s rpos r \/ block_origin s rpos r).
Proof.
  intros Hw Hpos Hidx H i Hi.
  rewrite format_ranges_unfold in H. inv_bind H. destruct v as [ranges open].
  inv_bind Hk. rename v into merged. inversion Hk0; subst rs. clear Hk0.
  destruct (fr_fold_ok s rpos rpos ([], []) Hw Hpos Hidx) as (acc' & Ef & Hgr & Hgo);
    [constructor | constructor |].
  rewrite Hb in Ef. inversion Ef; subst acc'. clear Ef. cbn [fst snd] in Hgr, Hgo.
  destruct (fr_fold_origin s rpos rpos ([], []) (ranges, open)) as [Hor Hoo];
    [intros x Hx; exact Hx | constructor | constructor | exact Hb |].
  cbn [fst snd] in Hor, Hoo.
  destruct (merge_ranges_perm ranges (sort_ranges open)) as (merged' & Em & Hnil & Hperm).
  rewrite Hb0 in Em. inversion Em; subst merged'. clear Em.
  assert (Hsrc : forall r, In r merged -> In r ranges \/ In r open).
  { intros r Hin. destruct ranges as [|r0 ranges'].
    - rewrite (Hnil eq_refl) in Hin. destruct Hin.
    - assert (Hne : r0 :: ranges' <> []) by discriminate.
      apply (Permutation_in _ (Hperm Hne)) in Hin. apply in_app_or in Hin.
      destruct Hin as [Hin|Hin]; [left; exact Hin | right].
      eapply Permutation_in; [apply sort_ranges_perm | exact Hin]. }
  assert (Hle : forall r, In r merged -> fst r <= snd r).
  { intros r Hin. rewrite Forall_forall in Hgr, Hgo.
    destruct (Hsrc r Hin) as [Hs|Hs]; [apply Hgr in Hs | apply Hgo in Hs];
      destruct Hs as [Hs _]; exact Hs. }
  apply (merge_overlapped_subset merged i Hle) in Hi.
  destruct Hi as (r & Hin & Hri). exists r. split; [exact Hri|].
  rewrite Forall_forall in Hor, Hoo.
  destruct (Hsrc r Hin) as [Hs|Hs]; [left; apply Hor; exact Hs | right; apply Hoo; exact Hs].
Qed.

Lemma not_blank_nl_ws c : is_blank c = false -> c <> NL -> is_ws c = false.
Proof.
  intros H1 H2. unfold is_ws, is_blank in *. apply orb_false_iff in H1. destruct H1 as [H1 H1'].
  rewrite H1, H1'. cbn [orb]. apply beq_neq. exact H2.
Qed.

(** A line break that follows code on its line (only blanks between) is never deleted. *)
Theorem nl_after_code_kept : forall s rpos rs i k c,
  wf_utf8 s = true ->
  (forall p pi, In (p, pi) rpos -> p <= length s /\ is_boundary s p = true) ->
  (forall p pi, In (p, Some pi) rpos -> pi < length rpos) ->
  format_ranges s rpos = Ok rs ->
  i < k -> nth_error s i = Some c -> is_blank c = false -> c <> NL ->
  (forall j b, i < j -> j < k -> nth_error s j = Some b -> is_blank b = true) ->
  nth_error s k = Some NL -> ~ in_ranges rs k.
Proof.
  intros s rpos rs i k c Hw Hpos Hidx H Hik Ni Bc Nc Hbl Nk Hin.
  pose proof (not_blank_nl_ws c Bc Nc) as Wc.
  destruct (format_ranges_origin s rpos rs Hw Hpos Hidx H k Hin) as ([a b] & [Ha Hb] & [Ho|Ho]);
    cbn [fst snd] in Ha, Hb.
  - destruct Ho as (p & pi & Hp & Efb). destruct (Hpos p pi Hp) as [Hpl Hpb].
    destruct (format_block_spec s p a b Hw Hpb Hpl Efb) as (F1 & F2 & F3 & F4 & _ & _).
    assert (forall x d, a <= x -> x < b -> nth_error s x = Some d -> is_ws d = true) as Hws
      by (apply ranges_only_ws_single_inv; exact F4).
    destruct (Nat.le_gt_cases p i) as [L1|L1].
    + rewrite (Hws i c) in Wc; [discriminate Wc | lia | lia | exact Ni].
    + destruct (Nat.le_gt_cases p k) as [L2|L2].
      * assert (format_block s p = Ok (p, p)) as E.
        { apply (seam_after_code_untouched s p i c Hw Hpb Hpl L1 Ni Bc Nc).
          intros j d Hj1 Hj2 Nj. apply (Hbl j d); [exact Hj1 | lia | exact Nj]. }
        rewrite Efb in E. inversion E. lia.
      * destruct (format_block_vs_hull s p a b Efb) as (a0 & Eh & [->|(-> & _ & _)]).
        -- destruct (seam_hull_left s p a0 b Eh) as [->|(La & q & -> & Nq)]; [lia|].
           destruct (Nat.lt_trichotomy q i) as [Q|[Q|Q]].
           ++ rewrite (Hws i c) in Wc; [discriminate Wc | lia | lia | exact Ni].
           ++ subst q. rewrite Nq in Ni. inversion Ni. subst c. contradiction.
           ++ pose proof (Hbl q NL Q ltac:(lia) Nq) as K. rewrite NL_not_blank in K. discriminate K.
        -- rewrite (Hws i c) in Wc; [discriminate Wc | lia | lia | exact Ni].
  - destruct Ho as (p & pi & q & qi & rs0 & Hp & Hn & Hpq & Eb & Hr0).
    destruct (block_range_confined s p q rs0 (a, b) Hw Eb Hr0) as (_ & _ & ls & _ & L2 & L3).
    cbn [fst snd] in L2, L3.
    pose proof (L3 k NL ltac:(lia) Hb Nk) as K. rewrite NL_not_blank in K. discriminate K.
Qed.

(* ------------------------------------------------------------------------- *)
(** * Part B: the same over the symbol list of a rendering *)

(** A symbol whose rendering ends with a byte that is neither a blank nor a line break. *)
Definition sym_code (x : sym) : bool :=
  match x with B c => negb (is_ws c) | DS => false | DE => true end.

(** A whitespace byte of a text (or of a tag body). *)
Definition sym_ws (x : sym) : bool := match x with B c => is_ws c | _ => false end.

Lemma sym_blank_B x : sym_blank x = true -> exists c, x = B c /\ is_blank c = true.
Proof. destruct x as [c| |]; cbn [sym_blank]; intros H; try discriminate H. exists c. auto. Qed.

Lemma sym_blank_ws x : sym_blank x = true -> sym_ws x = true.
Proof. intros H. apply sym_blank_B in H. destruct H as (c & -> & H). apply blank_is_ws. exact H. Qed.

(** [clean_rendered_pairs] of [Proofs.IdempotentUnwrap] with one more conclusion: a line break
    symbol that follows a code symbol with only blanks between is not deleted by the formatter. *)
Theorem clean_rendered_pairs2 : forall cfg ds de doc ams,
  good_delims ds de -> de_nb de -> good_doc ds de doc -> bodies_ok doc ->
  merge_markers (fst (a_collect cfg doc false)) = Ok ams ->
  exists aR,
    clean cfg ds de (render ds de doc) =
      Ok (rs ds de (sdelete aR (sdelete (map fst ams) (flat doc)))) /\
    (forall k x, in_ranges aR k -> nth_error (sdelete (map fst ams) (flat doc)) k = Some x ->
                 sym_ws x = true) /\
    (forall k, in_ranges aR k -> k < length (sdelete (map fst ams) (flat doc)) ->
       IdempotentUnwrap.confined ds de ams (sdelete (map fst ams) (flat doc)) k) /\
    (forall j k x, j < k -> nth_error (sdelete (map fst ams) (flat doc)) j = Some x ->
       sym_code x = true ->
       (forall y z, j < y -> y < k -> nth_error (sdelete (map fst ams) (flat doc)) y = Some z ->
                    sym_blank z = true) ->
       nth_error (sdelete (map fst ams) (flat doc)) k = Some (B NL) -> ~ in_ranges aR k).
Proof.
  intros cfg ds de doc ams Hgd Hnb Hdoc Hbod Eams.
  pose proof (good_delims_sp_ok ds de Hgd) as Hsp.
  destruct (good_delims_ne ds de Hgd) as [Nds Nde].
  pose proof Hgd as (_ & _ & Wds & Wde & _).
  pose proof (render_wf ds de doc Hgd Hdoc) as Hs.
  destruct (collect_rendered cfg ds de doc false Hgd Hdoc Hbod) as (parts & Hf & Ec & _).
  destruct (markers_spec cfg ds de _ parts Hs Wds Wde Nds Nde Hf)
    as (ms & Em & Hsnf & Hbd & Hob & Hpc & _).
  pose proof (sorted_nonempty_sorted 0 _ Hsnf) as Hsorted.
  set (l := flat doc) in *.
  set (F := fst (a_collect cfg doc false)) in *.
  pose proof (pos_mono_on ds de l Nds Nde) as Hmono.
  assert (Forall (rtree_le (length l)) F) as HF.
  { apply forest_positions_le. apply (proj1 (a_collect_bound cfg doc false)). }
  pose proof Em as Em0.
  unfold markers_of in Em0. rewrite Hf in Em0. cbn [bind] in Em0.
  unfold build_remove_marker in Em0.
  rewrite Ec, (merge_markers_mono _ _ F Hmono HF), Eams in Em0.
  inversion Em0 as [Ems]. clear Em0.
  pose proof (merge_markers_le _ F ams HF Eams) as Hle.
  set (R := map fst ams).
  set (l' := sdelete R l).
  assert (map fst ms = map (map_range (pos ds de l)) R) as EfR.
  { rewrite <- Ems. apply map_fst_map_marker. }
  assert (render ds de doc = rs ds de l) as Es by (symmetry; apply rs_flat).
  set (P1 := in_rangesb (map fst ms)).
  set (removed := delete_ranges (map fst ms) (render ds de doc)).
  set (rpos := map (fun m : marker => (rank P1 (fst (fst m)), snd m)) ms).
  assert (Hwr : wf_utf8 removed = true) by (apply delete_ranges_wf; assumption).
  assert (Hp1 : forall p pi, In (p, pi) rpos -> p <= length removed /\ is_boundary removed p = true).
  { intros p pi Hin. unfold rpos in Hin. apply in_map_iff in Hin.
    destruct Hin as (m & Em' & Hm). inversion Em'; subst p pi.
    assert (Hr : In (fst m) (map fst ms)) by (apply in_map; exact Hm).
    destruct (Hob _ Hr) as [Ha _].
    pose proof (boundary_le _ _ Ha) as Hle'.
    split.
    - unfold removed, delete_ranges. rewrite delete_where_length. apply rank_monotone. exact Hle'.
    - apply delete_ranges_boundary; assumption. }
  assert (Hp2 : forall p pi, In (p, Some pi) rpos -> pi < length rpos).
  { intros p pi Hin. unfold rpos in *. rewrite map_length. apply in_map_iff in Hin.
    destruct Hin as (m & Em' & Hm). inversion Em' as [[E1 E2]].
    apply In_nth_error in Hm. destruct Hm as [k Hk].
    destruct m as [r o]. cbn [snd] in E2. subst o.
    destruct (Hpc k r pi Hk) as [_ (r' & Hn)].
    apply nth_error_Some. congruence. }
  destruct (format_spec removed rpos Hwr Hp1 Hp2) as (rs0 & Efr & _ & _ & _ & Hws & Efmt & _).
  assert (removed = rs ds de l') as Erem.
  { unfold removed. rewrite EfR, Es. apply rs_sdelete_gen. }
  assert (rpos = map (map_pp (pos ds de l')) (a_removed_pos ams)) as Erpos.
  { unfold rpos, a_removed_pos, P1. rewrite EfR, <- Ems. rewrite !map_map. apply map_ext. intros m.
    unfold map_pp, map_marker. cbn [fst snd]. rewrite fst_map_range.
    fold R. rewrite pos_sdelete_gen. reflexivity. }
  assert (forall p, In p (a_removed_pos ams) -> fst p <= length l') as Hapos.
  { intros p Hin. unfold a_removed_pos in Hin. apply in_map_iff in Hin.
    destruct Hin as (m & <- & Hm). cbn [fst]. fold R. apply sindex_le.
    rewrite Forall_forall in Hle. apply (Hle m Hm). }
  assert (head_ok l') as Hh' by (apply (wf_head_ok ds de); rewrite <- Erem; exact Hwr).
  assert (nb_ok de l') as Hnb' by (left; exact Hnb).
  pose proof (format_ranges_flat ds de l' (a_removed_pos ams) Hsp Hnb' Hh' Hapos) as Eflat.
  rewrite <- Erem, <- Erpos, Efr in Eflat.
  destruct (a_format_ranges l' (a_removed_pos ams)) as [aR|] eqn:EaR; [|discriminate Eflat].
  inversion Eflat as [Ers0]. clear Eflat.
  exists aR. split; [|split; [|split]].
  - unfold clean. rewrite Em. cbn [bind].
    rewrite (remove_markers_ok _ ms Hsorted Hbd Hob Hs). cbn [bind].
    rewrite (get_removed_pos_ok ms Hsorted). cbn [bind].
    rewrite (removed_positions_rank ms Hsorted).
    change (format removed rpos = Ok (rs ds de (sdelete aR l'))). rewrite Efmt. f_equal.
    rewrite Ers0, Erem. apply rs_sdelete_gen.
  - intros k x Hk Hn.
    assert (k < length l') as Hkl by (apply nth_error_Some; congruence).
    pose proof (pos_S_lt ds de l' k (conj Nds Nde) Hkl) as Hlt.
    destruct x as [c| |]; cbn [sym_ws].
    + destruct (pos_byte ds de l' k c Hn) as [Hb HS].
      destruct (in_ranges_map_pos ds de l' aR k (conj Nds Nde) Hkl Hk (pos ds de l' k) ltac:(lia))
        as (r & Hr & Hi).
      rewrite <- Ers0 in Hr. apply (Hws r _ c Hr Hi). rewrite Erem. exact Hb.
    + exfalso. destruct (ds_run ds de l' k (proj1 Hsp) Hn) as (d0 & Hd0 & _ & Hw0 & _).
      destruct (in_ranges_map_pos ds de l' aR k (conj Nds Nde) Hkl Hk (pos ds de l' k) ltac:(lia))
        as (r & Hr & Hi).
      rewrite <- Ers0 in Hr. rewrite <- Erem in Hd0. rewrite (Hws r _ d0 Hr Hi Hd0) in Hw0. discriminate Hw0.
    + exfalso. destruct (de_run ds de l' k (proj2 Hsp) Hn) as (n & lead & m & Hlen & Hd0 & _ & Hw0 & _ & _ & HS & _).
      destruct (in_ranges_map_pos ds de l' aR k (conj Nds Nde) Hkl Hk (pos ds de l' k + n) ltac:(lia))
        as (r & Hr & Hi).
      rewrite <- Ers0 in Hr. rewrite <- Erem in Hd0. rewrite (Hws r _ lead Hr Hi Hd0) in Hw0. discriminate Hw0.
  - intros k Hk Hkl. unfold IdempotentUnwrap.confined.
    pose proof (pos_S_lt ds de l' k (conj Nds Nde) Hkl) as Hlt.
    destruct (in_ranges_map_pos ds de l' aR k (conj Nds Nde) Hkl Hk (pos ds de l' k) ltac:(lia))
      as (r & Hr & Hi).
    rewrite <- Ers0 in Hr.
    destruct (format_confined removed rpos rs0 Hwr Hp1 Hp2 Efr (pos ds de l' k)
                (ex_intro _ r (conj Hr Hi)))
      as [(p & pi & Hp & Hc)|(p & pi & q & qi & ls & _ & _ & _ & _ & Hls & Hle1 & Hbl)].
    + left. rewrite Erpos in Hp. apply in_map_iff in Hp. destruct Hp as ([jm pj] & Ep & Hin).
      unfold map_pp in Ep. cbn [fst snd] in Ep. inversion Ep; subst p pi.
      pose proof (Hapos _ Hin) as Hjl. cbn [fst] in Hjl.
      unfold a_removed_pos in Hin. apply in_map_iff in Hin. destruct Hin as (m & Em' & Hm).
      inversion Em'; subst jm pj.
      exists m. split; [exact Hm|]. fold R. fold l'. split; [exact Hjl|].
      intros j b Hj Hn. apply (Hc j b); [exact Hj|]. rewrite Erem. exact Hn.
    + right. exists ls. rewrite Erem in Hls, Hbl. split; [exact Hls|]. split; [exact Hle1|].
      exact Hbl.
  - (* new *)
    intros j k x Hjk Nj Cx Hbl Nk Hin.
    assert (k < length l') as Hkl by (apply nth_error_Some; congruence).
    pose proof (pos_S_lt ds de l' k (conj Nds Nde) Hkl) as Hlt.
    destruct (in_ranges_map_pos ds de l' aR k (conj Nds Nde) Hkl Hin (pos ds de l' k) ltac:(lia))
      as (r & Hr & Hi).
    rewrite <- Ers0 in Hr.
    destruct (pos_byte ds de l' k NL Nk) as [Hbk _].
    assert (brun l' (S j) k) as Hbr.
    { intros y Y1 Y2. destruct (nth_error l' y) as [z|] eqn:Ny; [|apply nth_error_None in Ny; lia].
      destruct (sym_blank_B z (Hbl y z ltac:(lia) Y2 Ny)) as (c & -> & _). exists c. reflexivity. }
    pose proof (pos_brun ds de l' (S j) k ltac:(lia) Hbr) as Epk.
    assert (exists i c, S i = pos ds de l' (S j) /\ nth_error removed i = Some c /\
                        is_blank c = false /\ c <> NL) as (i & c & Ei & Ni & Bc & Nc).
    { destruct x as [c| |]; cbn [sym_code] in Cx; [|discriminate Cx|].
      - apply negb_true_iff in Cx. destruct (ws_split c Cx) as [B1 B2].
        destruct (pos_byte ds de l' j c Nj) as [Hb HS].
        exists (pos ds de l' j), c. split; [symmetry; exact HS|]. rewrite Erem.
        split; [exact Hb|]. split; [exact B1|]. apply beq_neq. exact B2.
      - destruct (de_ok_last de (proj2 Hsp)) as (de' & x0 & Ede & B1 & B2).
        exists (pos ds de l' j + length de'), x0. split; [|split; [|split; [exact B1|apply beq_neq; exact B2]]].
        + rewrite (pos_S ds de l' j DE Nj). cbn [rsym]. rewrite Ede, app_length. cbn [length]. lia.
        + rewrite Erem, (rs_nth_in ds de l' j DE (length de') Nj).
          * cbn [rsym]. rewrite Ede. rewrite nth_error_app2 by lia. rewrite Nat.sub_diag. reflexivity.
          * cbn [rsym]. rewrite Ede, app_length. cbn [length]. lia. }
    apply (nl_after_code_kept removed rpos rs0 i (pos ds de l' k) c Hwr Hp1 Hp2 Efr);
      try assumption.
    + lia.
    + intros y b Y1 Y2 Ny.
      set (n := y - pos ds de l' (S j)).
      assert (n < k - S j) as Ln by (unfold n; lia).
      pose proof (pos_brun_add ds de l' (S j) k n Hbr ltac:(lia)) as Epn.
      destruct (Hbr (S j + n) ltac:(lia) ltac:(lia)) as (c' & Nc').
      destruct (pos_byte ds de l' _ c' Nc') as [Hb' _].
      rewrite Epn in Hb'. replace (pos ds de l' (S j) + n) with y in Hb' by (unfold n; lia).
      rewrite Erem in Ny. rewrite Hb' in Ny. inversion Ny; subst b.
      exact (Hbl (S j + n) (B c') ltac:(lia) ltac:(lia) Nc').
    + rewrite Erem. exact Hbk.
    + exists r. split; [exact Hr | exact Hi].
Qed.

(* ------------------------------------------------------------------------- *)
(** * Part C: ranks, and the finders of the unwrap-block strategy under a deletion *)

Lemma rank_S_kept P i : P i = false -> rank P (S i) = S (rank P i).
Proof. intros H. rewrite rank_snoc, H. lia. Qed.

Lemma rank_lt_kept P i j : P i = false -> i < j -> rank P i < rank P j.
Proof.
  intros H L. pose proof (rank_monotone P (S i) j L) as M. rewrite (rank_S_kept P i H) in M. lia.
Qed.

Lemma rank_le_kept P i j : P i = false -> rank P j <= rank P i -> j <= i.
Proof.
  intros H L. destruct (Nat.le_gt_cases j i) as [K|K]; [exact K|].
  pose proof (rank_lt_kept P i j H K). lia.
Qed.

Lemma rank_lt_inv P i j : rank P i < rank P j -> i < j.
Proof.
  intros L. destruct (Nat.lt_ge_cases i j) as [K|K]; [exact K|].
  pose proof (rank_monotone P j i K). lia.
Qed.

Lemma rank_inv P : forall n y, y < rank P n -> exists x, x < n /\ P x = false /\ rank P x = y.
Proof.
  induction n as [|n IH]; intros y Hy; [rewrite rank_0 in Hy; lia|].
  rewrite rank_snoc in Hy. destruct (Nat.lt_ge_cases y (rank P n)) as [L|L].
  - destruct (IH y L) as (x & Hx & Px & Rx). exists x. repeat split; try assumption. lia.
  - destruct (P n) eqn:E; [lia|]. exists n. repeat split; try assumption; lia.
Qed.

Lemma length_sdel0 P l : length (sdel_from 0 P l) = rank P (length l).
Proof. apply length_sdel_from. Qed.

(** Every symbol of the residual list is a kept symbol of the list. *)
Lemma nth_sdel_inv P l y z : nth_error (sdel_from 0 P l) y = Some z ->
  exists x, P x = false /\ rank P x = y /\ nth_error l x = Some z.
Proof.
  intros H. assert (y < rank P (length l)) as L.
  { rewrite <- length_sdel0. apply nth_error_Some. congruence. }
  destruct (rank_inv P _ y L) as (x & _ & Px & Rx). exists x. split; [exact Px|]. split; [exact Rx|].
  rewrite <- (nth_sdel P l x Px), Rx. exact H.
Qed.

Lemma next_lb_min l j p : a_next_lb l j false = Some p ->
  forall i, j <= i -> i < p -> nth_error l i <> Some (B NL).
Proof.
  intros H. pose proof (a_next_lb_some l j false p H) as (H1 & _ & H3 & _).
  destruct (least_nl l p (p - j) j eq_refl H1 H3) as (p' & Hp' & Np' & Mp').
  rewrite (a_next_lb_first l j p' ltac:(lia) Np' Mp') in H. inversion H; subst p'. exact Mp'.
Qed.

Lemma next_lb_none l j : a_next_lb l j false = None ->
  forall i, j <= i -> nth_error l i <> Some (B NL).
Proof.
  intros H i Hi N. destruct (next_lb_le l j i Hi N) as (p & E & _). rewrite H in E. discriminate E.
Qed.

Lemma prev_lb_max l j p : a_prev_lb l j false = Some p -> j <= length l ->
  forall i, p < i -> i < j -> nth_error l i <> Some (B NL).
Proof.
  intros H Hj. pose proof (a_prev_lb_some l false j p H) as (H1 & H3 & _).
  destruct (greatest_nl l p (j - p) j eq_refl H1 H3) as (p' & Hp' & Np' & Mp').
  rewrite (a_prev_lb_last l j p' ltac:(lia) Hj Np' Mp') in H. inversion H; subst p'. exact Mp'.
Qed.

Lemma prev_lb_none l j : a_prev_lb l j false = None -> j <= length l ->
  forall i, i < j -> nth_error l i <> Some (B NL).
Proof.
  intros H Hj i Hi N. destruct (prev_lb_ge l j i Hi Hj N) as (p & E & _). rewrite H in E. discriminate E.
Qed.

(** The first kept line break at or after [j] is the first line break of the residual list. *)
Lemma next_lb_sdel_gen P l j p : j <= p -> nth_error l p = Some (B NL) -> P p = false ->
  (forall i, j <= i -> i < p -> nth_error l i = Some (B NL) -> P i = true) ->
  a_next_lb (sdel_from 0 P l) (rank P j) false = Some (rank P p).
Proof.
  intros Hjp Np Pp Hno. apply a_next_lb_first.
  - apply rank_monotone. exact Hjp.
  - rewrite (nth_sdel P l p Pp). exact Np.
  - intros y Y1 Y2 Ny. destruct (nth_sdel_inv P l y _ Ny) as (x & Px & Rx & Nx). subst y.
    assert (j <= x) as L1.
    { destruct (Nat.le_gt_cases j x) as [K|K]; [exact K|]. pose proof (rank_lt_kept P x j Px K). lia. }
    assert (x < p) as L2 by (apply (rank_lt_inv P); exact Y2).
    rewrite (Hno x L1 L2 Nx) in Px. discriminate Px.
Qed.

Lemma next_lb_sdel P l j p : a_next_lb l j false = Some p -> P p = false ->
  a_next_lb (sdel_from 0 P l) (rank P j) false = Some (rank P p).
Proof.
  intros H Pp. pose proof (a_next_lb_some l j false p H) as (H1 & _ & H3 & _).
  apply next_lb_sdel_gen; try assumption.
  intros i I1 I2 Ni. exfalso. apply (next_lb_min l j p H i I1 I2 Ni).
Qed.

Lemma next_lb_sdel_none P l j :
  (forall i, j <= i -> nth_error l i = Some (B NL) -> P i = true) ->
  a_next_lb (sdel_from 0 P l) (rank P j) false = None.
Proof.
  intros Hno. destruct (a_next_lb (sdel_from 0 P l) (rank P j) false) as [y|] eqn:E; [|reflexivity].
  exfalso. apply a_next_lb_some in E. destruct E as (Y1 & _ & Ny & _).
  destruct (nth_sdel_inv P l y _ Ny) as (x & Px & Rx & Nx). subst y.
  assert (j <= x) as L1.
  { destruct (Nat.le_gt_cases j x) as [K|K]; [exact K|]. pose proof (rank_lt_kept P x j Px K). lia. }
  rewrite (Hno x L1 Nx) in Px. discriminate Px.
Qed.

(** The last kept line break before [j] is the last line break of the residual list. *)
Lemma prev_lb_sdel_gen P l j p : p < j -> j <= length l -> nth_error l p = Some (B NL) -> P p = false ->
  (forall i, p < i -> i < j -> nth_error l i = Some (B NL) -> P i = true) ->
  a_prev_lb (sdel_from 0 P l) (rank P j) false = Some (rank P p).
Proof.
  intros Hpj Hj Np Pp Hno. apply a_prev_lb_last.
  - apply rank_lt_kept; assumption.
  - rewrite length_sdel0. apply rank_monotone. exact Hj.
  - rewrite (nth_sdel P l p Pp). exact Np.
  - intros y Y1 Y2 Ny. destruct (nth_sdel_inv P l y _ Ny) as (x & Px & Rx & Nx). subst y.
    assert (p < x) as L1 by (apply (rank_lt_inv P); exact Y1).
    assert (x < j) as L2 by (apply (rank_lt_inv P); exact Y2).
    rewrite (Hno x L1 L2 Nx) in Px. discriminate Px.
Qed.

Lemma prev_lb_sdel P l j p : a_prev_lb l j false = Some p -> j <= length l -> P p = false ->
  a_prev_lb (sdel_from 0 P l) (rank P j) false = Some (rank P p).
Proof.
  intros H Hj Pp. pose proof (a_prev_lb_some l false j p H) as (H1 & H3 & _).
  apply prev_lb_sdel_gen; try assumption.
  intros i I1 I2 Ni. exfalso. apply (prev_lb_max l j p H Hj i I1 I2 Ni).
Qed.

Lemma prev_lb_sdel_none P l j :
  (forall i, i < j -> nth_error l i = Some (B NL) -> P i = true) ->
  a_prev_lb (sdel_from 0 P l) (rank P j) false = None.
Proof.
  intros Hno. destruct (a_prev_lb (sdel_from 0 P l) (rank P j) false) as [y|] eqn:E; [|reflexivity].
  exfalso. apply a_prev_lb_some in E. destruct E as (Y1 & Ny & _).
  destruct (nth_sdel_inv P l y _ Ny) as (x & Px & Rx & Nx). subst y.
  assert (x < j) as L1 by (apply (rank_lt_inv P); exact Y1).
  rewrite (Hno x L1 Nx) in Px. discriminate Px.
Qed.

(* ------------------------------------------------------------------------- *)
(** * Part D: up to whitespace, [clean] is the marker stage *)

Lemma rs_cons ds de x l : rs ds de (x :: l) = rsym ds de x ++ rs ds de l.
Proof. reflexivity. Qed.

Lemma nonws_sym_ws ds de x : sym_ws x = true -> nonws (rsym ds de x) = [].
Proof.
  destruct x as [c| |]; cbn [sym_ws]; intros H; try discriminate H.
  cbn [rsym]. unfold nonws. cbn [filter]. rewrite H. reflexivity.
Qed.

(** Two masks that agree on the symbols that are not whitespace bytes leave the same text up to
    whitespace. *)
Lemma nonws_rs_sdel_agree ds de M1 M2 : forall l k,
  (forall i x, nth_error l i = Some x -> sym_ws x = false -> M1 (k + i) = M2 (k + i)) ->
  nonws (rs ds de (sdel_from k M1 l)) = nonws (rs ds de (sdel_from k M2 l)).
Proof.
  induction l as [|x l IH]; intros k H; [reflexivity|].
  assert (nonws (rs ds de (sdel_from (S k) M1 l)) = nonws (rs ds de (sdel_from (S k) M2 l))) as E.
  { apply IH. intros i y Hi Hy. replace (S k + i) with (k + S i) by lia. apply (H (S i) y Hi Hy). }
  cbn [sdel_from]. destruct (sym_ws x) eqn:W.
  - destruct (M1 k), (M2 k); rewrite ?rs_cons, ?nonws_app, ?(nonws_sym_ws ds de x W); exact E.
  - pose proof (H 0 x eq_refl W) as E0. rewrite Nat.add_0_r in E0. rewrite E0.
    destruct (M2 k); rewrite ?rs_cons, ?nonws_app, E; reflexivity.
Qed.

(** Up to whitespace the output of [clean] on a rendering is the rendering without the merged
    marker ranges. *)
Theorem clean_nonws_markers : forall cfg ds de doc ams out,
  good_delims ds de -> de_nb de -> good_doc ds de doc -> bodies_ok doc ->
  merge_markers (fst (a_collect cfg doc false)) = Ok ams ->
  clean cfg ds de (render ds de doc) = Ok out ->
  nonws out = nonws (rs ds de (sdelete (map fst ams) (flat doc))).
Proof.
  intros cfg ds de doc ams out Hgd Hnb Hdoc Hbod E Hc.
  destruct (clean_rendered_pairs2 cfg ds de doc ams Hgd Hnb Hdoc Hbod E) as (aR & Ecl & Hws & _).
  rewrite Ecl in Hc. inversion Hc; subst out. clear Hc.
  set (l' := sdelete (map fst ams) (flat doc)) in *.
  rewrite <- (AstCollect.sdel_from_none (fun _ => false) (fun _ => eq_refl) l' 0) at 2.
  unfold sdelete at 1. apply nonws_rs_sdel_agree. intros i x Hi Hx. cbn [Nat.add].
  destruct (in_rangesb aR i) eqn:Ei; [|reflexivity].
  apply in_rangesb_spec in Ei. rewrite (Hws i x Ei Hi) in Hx. discriminate Hx.
Qed.

(** For the rendering of a syntax tree: the mask of the marker stage is [del1u]. *)
Corollary clean_nonws_del1u : forall cfg ds de f out,
  good_delims ds de -> de_nb de -> good_doc ds de (doc_of f) -> bodies_ok (doc_of f) ->
  Forall ast_ok f ->
  clean cfg ds de (render ds de (doc_of f)) = Ok out ->
  nonws out = nonws (rs ds de (sdel_from 0 (del1u cfg f) (flat (doc_of f)))).
Proof.
  intros cfg ds de f out Hgd Hnb Hdoc Hbod Hok Hc.
  destruct (ucollect_markers cfg f Hok) as (ams & E & _ & _ & K).
  rewrite (clean_nonws_markers cfg ds de (doc_of f) ams out Hgd Hnb Hdoc Hbod E Hc).
  unfold sdelete. f_equal. f_equal. apply sdel_from_ext. exact K.
Qed.

(* ------------------------------------------------------------------------- *)
(** * Part E: the domain [strict2] *)

(** A string with a non-whitespace byte. *)
Definition has_code (w : str) : Prop := exists c, In c w /\ is_ws c = false.

(** The first text child of an unwrap-block: the rest [r1] of the line of the opening tag, the
    wrapper line [w1] (a code line), the rest. *)
Definition open_wrap (t1 : str) : Prop :=
  exists r1 w1 rest1, t1 = r1 ++ NL :: w1 ++ NL :: rest1 /\ ~ In NL r1 /\ ~ In NL w1 /\ has_code w1.

(** The last text child: the rest, the wrapper line [w2] (a code line), the part [r2] of the line
    of the closing tag in front of it. *)
Definition close_wrap (t2 : str) : Prop :=
  exists rest2 w2 r2, t2 = rest2 ++ NL :: w2 ++ NL :: r2 /\ ~ In NL w2 /\ ~ In NL r2 /\ has_code w2.

Definition wrapper_kids2 (kids : list ast) : Prop :=
  (exists t, kids = [AT t]) \/
  (exists t1 mid t2, kids = AT t1 :: mid ++ [AT t2] /\ open_wrap t1 /\ close_wrap t2).

Fixpoint strict21 (a : ast) : Prop :=
  match a with
  | AT _ => True
  | AC b => ~ In NL b
  | AE b1 b2 kids =>
    ~ In NL b1 /\ ~ In NL b2 /\ (is_unwrap b1 = true -> wrapper_kids2 kids) /\
    (fix all (l : list ast) : Prop :=
       match l with [] => True | x :: l' => strict21 x /\ all l' end) kids
  end.
Definition strict2 (f : list ast) : Prop := Forall strict21 f.

Lemma strict21_AE b1 b2 kids :
  strict21 (AE b1 b2 kids) <->
  ~ In NL b1 /\ ~ In NL b2 /\ (is_unwrap b1 = true -> wrapper_kids2 kids) /\ strict2 kids.
Proof.
  cbn [strict21].
  assert ((fix all (l : list ast) : Prop :=
             match l with [] => True | x :: l' => strict21 x /\ all l' end) kids <-> strict2 kids) as E.
  { unfold strict2. induction kids as [|x kids IH].
    - split; [constructor | intros _; exact I].
    - split.
      + intros [H1 H2]. constructor; [exact H1 | apply IH; exact H2].
      + intros H. inversion H; subst. split; [assumption | apply IH; assumption]. }
  rewrite E. reflexivity.
Qed.

Lemma nlcount_NL_cons t : nlcount (NL :: t) = S (nlcount t).
Proof. rewrite nlcount_cons. reflexivity. Qed.

Lemma open_wrap_two t : open_wrap t -> 2 <= nlcount t.
Proof.
  intros (r1 & w1 & rest1 & -> & _). rewrite nlcount_app, nlcount_NL_cons, nlcount_app, nlcount_NL_cons. lia.
Qed.

Lemma close_wrap_two t : close_wrap t -> 2 <= nlcount t.
Proof.
  intros (r1 & w1 & rest1 & -> & _). rewrite nlcount_app, nlcount_NL_cons, nlcount_app, nlcount_NL_cons. lia.
Qed.

Lemma wrapper_kids2_1 kids : wrapper_kids2 kids -> wrapper_kids kids.
Proof.
  intros [H|(t1 & mid & t2 & E & H1 & H2)]; [left; exact H | right].
  exists t1, mid, t2. split; [exact E|]. split; [apply open_wrap_two | apply close_wrap_two]; assumption.
Qed.

Lemma strict2_strict_both :
  (forall a, strict21 a -> strict1 a) /\ (forall f, strict2 f -> strict f).
Proof.
  apply (ast_forest_ind (fun a => strict21 a -> strict1 a) (fun f => strict2 f -> strict f)).
  - intros t _. exact I.
  - intros b H. exact H.
  - intros b1 b2 kids IH H. apply strict21_AE in H. destruct H as (H1 & H2 & HW & Hk).
    apply strict1_AE. repeat split; try assumption.
    + intros U. apply wrapper_kids2_1. apply HW. exact U.
    + apply IH. exact Hk.
  - intros _. constructor.
  - intros x f Hx Hf H. inversion H; subst. constructor; [apply Hx | apply Hf]; assumption.
Qed.

(** [strict2] implies [strict]. *)
Theorem strict2_strict f : strict2 f -> strict f.
Proof. apply (proj2 strict2_strict_both). Qed.

(** On the document, relative to a base index. *)
Definition wrap_rel2 (its : list item) (base : nat) (n : node) : Prop :=
  match n with
  | (b1, b2, o, c) =>
    is_unwrap b1 = true ->
    exists i j, o = base + i /\ c = base + j /\
      ((exists t, j = S (S i) /\ nth_error its (S i) = Some (Txt t)) \/
       (exists t1 t2, S (S i) < j /\ nth_error its (S i) = Some (Txt t1) /\
                      nth_error its (j - 1) = Some (Txt t2) /\
                      open_wrap t1 /\ close_wrap t2))
  end.

Lemma wrap_rel2_app_l its its' base n : wrap_rel2 its base n -> wrap_rel2 (its ++ its') base n.
Proof.
  destruct n as [[[b1 b2] o] c]. intros H U. destruct (H U) as (i & j & -> & -> & K).
  exists i, j. split; [reflexivity|]. split; [reflexivity|].
  destruct K as [(t & -> & H1)|(t1 & t2 & L & H1 & H2 & C)].
  - left. exists t. split; [reflexivity|].
    rewrite nth_error_app1; [exact H1 | apply nth_error_Some; congruence].
  - right. exists t1, t2. split; [exact L|]. split; [|split; [|exact C]].
    + rewrite nth_error_app1; [exact H1 | apply nth_error_Some; congruence].
    + rewrite nth_error_app1; [exact H2 | apply nth_error_Some; congruence].
Qed.

Lemma wrap_rel2_app_r its' its base n :
  wrap_rel2 its (base + length its') n -> wrap_rel2 (its' ++ its) base n.
Proof.
  destruct n as [[[b1 b2] o] c]. intros H U. destruct (H U) as (i & j & -> & -> & K).
  exists (length its' + i), (length its' + j). split; [lia|]. split; [lia|].
  destruct K as [(t & -> & H1)|(t1 & t2 & L & H1 & H2 & C)].
  - left. exists t. split; [lia|].
    rewrite nth_error_app2 by lia. rewrite <- H1. f_equal. lia.
  - right. exists t1, t2. split; [lia|]. split; [|split; [|exact C]].
    + rewrite nth_error_app2 by lia. rewrite <- H1. f_equal. lia.
    + rewrite nth_error_app2 by lia. rewrite <- H2. f_equal. lia.
Qed.

Lemma strict2_nodes_both :
  (forall a, strict21 a -> forall base n, In n (nodes1 base a) -> wrap_rel2 (items_of a) base n) /\
  (forall f, strict2 f -> forall base n, In n (ast_nodes base f) -> wrap_rel2 (doc_of f) base n).
Proof.
  apply (ast_forest_ind
    (fun a => strict21 a -> forall base n, In n (nodes1 base a) -> wrap_rel2 (items_of a) base n)
    (fun f => strict2 f -> forall base n, In n (ast_nodes base f) -> wrap_rel2 (doc_of f) base n)).
  - intros t _ base n [].
  - intros b _ base n [].
  - intros b1 b2 kids IH H base n Hn. apply strict21_AE in H. destruct H as (_ & _ & HW & Hk).
    rewrite nodes1_AE in Hn. destruct Hn as [<-|Hn].
    + intros U. exists 0, (S (sizes kids)). split; [lia|]. split; [lia|].
      destruct (HW U) as [(t & ->)|(t1 & mid & t2 & -> & C)].
      * left. exists t. split; [reflexivity|]. reflexivity.
      * right. exists t1, t2.
        assert (sizes (AT t1 :: mid ++ [AT t2]) = S (sizes mid + 1)) as Es.
        { rewrite sizes_cons. cbn [size]. unfold sizes. rewrite map_app, list_sum_app. reflexivity. }
        rewrite Es. split; [lia|]. split; [reflexivity|]. split; [|exact C].
        rewrite items_AE, doc_of_cons, doc_of_app. cbn [items_of doc_of flat_map app].
        replace (S (S (sizes mid + 1)) - 1) with (S (S (length (doc_of mid)))) by (rewrite sizes_doc; lia).
        cbn [nth_error]. rewrite <- app_assoc. rewrite nth_error_app2 by lia.
        rewrite Nat.sub_diag. reflexivity.
    + rewrite items_AE. apply wrap_rel2_app_r. apply wrap_rel2_app_l. cbn [length].
      rewrite Nat.add_1_r. apply (IH Hk). exact Hn.
  - intros _ base n [].
  - intros x f Hx Hf H base n Hn. inversion H; subst. cbn [ast_nodes] in Hn. rewrite doc_of_cons.
    apply in_app_or in Hn. destruct Hn as [Hn|Hn].
    + apply wrap_rel2_app_l. apply Hx; assumption.
    + apply wrap_rel2_app_r. rewrite size_items. apply Hf; assumption.
Qed.

(** The wrapper lines of an unwrap-block node of the forest, over the item indices of [doc_of f]. *)
Definition wrap2_ok (doc : list item) (n : node) : Prop :=
  let o := node_open n in let c := node_close n in
  (exists t, c = S (S o) /\ nth_error doc (S o) = Some (Txt t)) \/
  (exists t1 t2, S (S o) < c /\ nth_error doc (S o) = Some (Txt t1) /\
                 nth_error doc (c - 1) = Some (Txt t2) /\ open_wrap t1 /\ close_wrap t2).

Lemma strict2_wrap f n : strict2 f -> In n (ast_nodes 0 f) -> is_unwrap (node_b1 n) = true ->
  wrap2_ok (doc_of f) n.
Proof.
  intros Hs Hn U. pose proof (proj2 strict2_nodes_both f Hs 0 n Hn) as H.
  destruct n as [[[b1 b2] o] c]. cbn [node_b1] in U. destruct (H U) as (i & j & -> & -> & K).
  unfold wrap2_ok. cbn [node_open node_close Nat.add]. exact K.
Qed.

(* ------------------------------------------------------------------------- *)
(** * Part F: the mask of one run, with what is needed about whitespace *)

(** [clean_run_mask_strict] of [Proofs.IdempotentUnwrap] with four more conclusions:
    - the mask contains the mask [del1u] of the marker stage;
    - beyond it only whitespace bytes are deleted;
    - a line break symbol that follows a kept code symbol, with only blanks or symbols deleted by
      the marker stage between, is kept;
    - a deleted line break symbol is linked to a symbol deleted by the marker stage through
      whitespace bytes and symbols deleted by the marker stage only. *)
Theorem clean_run_mask2 cfg ds de f :
  good_delims ds de -> de_nb de -> good_doc ds de (doc_of f) -> bodies_ok (doc_of f) ->
  Forall ast_ok f -> strict f ->
  exists del,
    pair_respecting del f /\
    (forall i t, nth_error (doc_of f) i = Some (Txt t) ->
       wf_utf8 (kept_from (fstart (doc_of f) i) del t) = true) /\
    (forall it b, nth_error (doc_of f) it = Some (Tag b) ->
       del (fstart (doc_of f) it) = tdel cfg f it) /\
    clean cfg ds de (render ds de (doc_of f)) =
      Ok (rs ds de (sdel_from 0 del (flat (doc_of f)))) /\
    (forall i, del1u cfg f i = true -> del i = true) /\
    (forall i x, del i = true -> del1u cfg f i = false ->
       nth_error (flat (doc_of f)) i = Some x -> sym_ws x = true) /\
    (forall j k x, j < k -> nth_error (flat (doc_of f)) j = Some x -> sym_code x = true ->
       del j = false ->
       (forall y z, j < y -> y < k -> nth_error (flat (doc_of f)) y = Some z ->
                    del1u cfg f y = true \/ sym_blank z = true) ->
       nth_error (flat (doc_of f)) k = Some (B NL) -> del1u cfg f k = false -> del k = false) /\
    (forall x, del x = true -> del1u cfg f x = false ->
       nth_error (flat (doc_of f)) x = Some (B NL) ->
       exists y, del1u cfg f y = true /\
         forall z s, (x < z /\ z < y) \/ (y < z /\ z < x) -> nth_error (flat (doc_of f)) z = Some s ->
                     del1u cfg f z = true \/ sym_ws s = true).
Proof.
  intros Hgd Hnb Hdoc Hbod Hok Hst.
  pose proof (good_delims_sp_ok ds de Hgd) as Hsp.
  pose proof (sp_ok_ne ds de Hsp) as Hne.
  destruct (ucollect_markers cfg f Hok) as (ams & E & S1 & _ & K').
  destruct (clean_rendered_pairs2 cfg ds de (doc_of f) ams Hgd Hnb Hdoc Hbod E)
    as (aR & Ecl & Hws & Hconf & HQ).
  pose proof (kept_tag_untouched_u ds de (doc_of f) ams aR Hsp S1 Hconf) as KT0.
  set (doc := doc_of f) in *. set (R := map fst ams) in *. set (P1 := in_rangesb R) in *.
  set (l := flat doc) in *. set (l' := sdelete R l) in *.
  unfold sindex in KT0. fold P1 in KT0.
  assert (forall it b q, nth_error doc it = Some (Tag b) ->
            fstart doc it <= q < fstart doc (S it) -> P1 q = tdel cfg f it) as PT.
  { intros it b q Hit Hq. unfold P1. rewrite K'. apply (del1u_tag cfg f it b q Hst Hit Hq). }
  assert (forall it b, nth_error doc it = Some (Tag b) -> P1 (fstart doc it) = false ->
            forall j, fstart doc it <= j < fstart doc (S it) -> in_rangesb aR (rank P1 j) = false) as KT.
  { intros it b Hit H0 j Hj. apply (KT0 it b Hit).
    - apply (strict_tags f Hst). apply (nth_error_In _ _ Hit).
    - intros q Hq. rewrite (PT it b q Hit Hq). rewrite <- (PT it b _ Hit (tag_start_in doc it b Hit)).
      exact H0.
    - exact Hj. }
  assert (forall i, P1 i = false -> nth_error l' (rank P1 i) = nth_error l i) as NS.
  { intros i Hi. unfold l', sdelete. fold P1. apply nth_sdel. exact Hi. }
  exists (fun i => P1 i || in_rangesb aR (rank P1 i)).
  split; [split|split; [|split; [|split; [|split; [|split; [|split]]]]]].
  - (* constant on every tag *)
    intros it b Hit j Hj. cbn [Nat.add] in *. fold doc in Hit, Hj. fold doc.
    rewrite (PT it b j Hit Hj), <- (PT it b _ Hit (tag_start_in doc it b Hit)).
    destruct (P1 (fstart doc it)) eqn:E0; [reflexivity|]. cbn [orb].
    rewrite (KT it b Hit E0 j Hj). rewrite (KT it b Hit E0 (fstart doc it) (tag_start_in doc it b Hit)).
    reflexivity.
  - (* the two tags of a node *)
    intros b1 b2 o c Hn.
    pose proof (ast_nodes_at f 0 _ Hn) as (i & j & -> & -> & _ & Hi & Hj). cbn [Nat.add].
    fold doc in Hi, Hj. fold doc.
    assert (P1 (fstart doc i) = P1 (fstart doc j)) as Ec.
    { rewrite (PT i b1 _ Hi (tag_start_in doc i b1 Hi)), (PT j b2 _ Hj (tag_start_in doc j b2 Hj)).
      apply (tdel_node cfg f (b1, b2, i, j) Hn). }
    rewrite <- Ec. destruct (P1 (fstart doc i)) eqn:E0; [reflexivity|]. cbn [orb].
    rewrite (KT i b1 Hi E0 _ (tag_start_in doc i b1 Hi)).
    symmetry in Ec. rewrite (KT j b2 Hj Ec _ (tag_start_in doc j b2 Hj)). reflexivity.
  - (* the kept bytes of a text *)
    intros i t Hi. fold doc in Hi. fold doc. set (s := fstart doc i).
    pose proof (txt_fstart doc i t Hi) as HS. fold s in HS.
    apply wf_utf8_WF. apply WF_kept_gen.
    { apply wf_utf8_WF. destruct Hdoc as (_ & _ & Hwt & _). apply Hwt. apply (nth_error_In _ _ Hi). }
    intros q c c' Hq Hq' Hd.
    assert (S q < length t) as Lq by (apply nth_error_Some; congruence).
    pose proof (txt_sym doc i t q Hi ltac:(lia)) as Y1. rewrite Hq in Y1. cbn [option_map] in Y1.
    pose proof (txt_sym doc i t (S q) Hi Lq) as Y2. rewrite Hq' in Y2. cbn [option_map] in Y2.
    fold s l in Y1, Y2.
    destruct (P1 (s + q)) eqn:A1; destruct (P1 (s + S q)) eqn:A2; cbn [orb] in Hd.
    + exfalso. apply Hd. reflexivity.
    + destruct (del1u_txt_change cfg f i t (s + q) Hst Hi ltac:(fold doc; fold s; lia)
                  ltac:(fold doc; fold s; lia)) as [N|N].
      * rewrite <- !K'. fold R P1. replace (S (s + q)) with (s + S q) by lia. rewrite A1, A2. discriminate.
      * fold doc l in N. rewrite Y1 in N. inversion N. left. reflexivity.
      * fold doc l in N. replace (S (s + q)) with (s + S q) in N by lia. rewrite Y2 in N.
        inversion N. right. reflexivity.
    + destruct (del1u_txt_change cfg f i t (s + q) Hst Hi ltac:(fold doc; fold s; lia)
                  ltac:(fold doc; fold s; lia)) as [N|N].
      * rewrite <- !K'. fold R P1. replace (S (s + q)) with (s + S q) by lia. rewrite A1, A2. discriminate.
      * fold doc l in N. rewrite Y1 in N. inversion N. left. reflexivity.
      * fold doc l in N. replace (S (s + q)) with (s + S q) in N by lia. rewrite Y2 in N.
        inversion N. right. reflexivity.
    + destruct (in_rangesb aR (rank P1 (s + q))) eqn:B1.
      * left. apply in_rangesb_spec in B1. apply (Hws _ (B c) B1). rewrite (NS _ A1). exact Y1.
      * destruct (in_rangesb aR (rank P1 (s + S q))) eqn:B2; [|exfalso; apply Hd; reflexivity].
        right. apply in_rangesb_spec in B2. apply (Hws _ (B c') B2). rewrite (NS _ A2). exact Y2.
  - intros it b Hit. fold doc in Hit. fold doc.
    rewrite (PT it b _ Hit (tag_start_in doc it b Hit)).
    destruct (tdel cfg f it) eqn:E0; [reflexivity|]. cbn [orb].
    apply (KT it b Hit); [|apply (tag_start_in doc it b Hit)].
    rewrite (PT it b _ Hit (tag_start_in doc it b Hit)). exact E0.
  - rewrite Ecl. fold doc R l l'. unfold l', sdelete. rewrite sdel_compose. reflexivity.
  - (* contains the marker stage *)
    intros i Hi. cbv beta. unfold P1 at 1. rewrite K', Hi. reflexivity.
  - (* beyond it only whitespace *)
    intros i x Hd H1 Hn. cbv beta in Hd.
    assert (P1 i = false) as E0 by (unfold P1; rewrite K'; exact H1).
    rewrite E0 in Hd. cbn [orb] in Hd. apply in_rangesb_spec in Hd.
    apply (Hws _ x Hd). rewrite (NS _ E0). exact Hn.
  - (* the line break after code *)
    intros j k x Hjk Nj Cx Hdj Hbl Nk H1k. cbv beta in Hdj. cbv beta.
    apply orb_false_iff in Hdj. destruct Hdj as [Pj _].
    assert (P1 k = false) as Pk by (unfold P1; rewrite K'; exact H1k).
    rewrite Pk. cbn [orb].
    destruct (in_rangesb aR (rank P1 k)) eqn:Ek; [exfalso | reflexivity].
    apply in_rangesb_spec in Ek. revert Ek.
    apply (HQ (rank P1 j) (rank P1 k) x).
    + apply rank_lt_kept; assumption.
    + rewrite (NS _ Pj). exact Nj.
    + exact Cx.
    + intros y' z Y1 Y2 Ny. unfold l', sdelete in Ny. fold P1 in Ny.
      destruct (nth_sdel_inv P1 l y' z Ny) as (y & Py & Ry & Nyl). subst y'.
      apply rank_lt_inv in Y1. apply rank_lt_inv in Y2.
      destruct (Hbl y z Y1 Y2 Nyl) as [D|D]; [|exact D].
      rewrite <- K' in D. fold R P1 in D. rewrite D in Py. discriminate Py.
    + rewrite (NS _ Pk). exact Nk.
  - (* a deleted line break is linked to the marker stage *)
    intros x Hd H1 Nx. cbv beta in Hd.
    assert (P1 x = false) as Px by (unfold P1; rewrite K'; exact H1).
    rewrite Px in Hd. cbn [orb] in Hd. apply in_rangesb_spec in Hd.
    set (k := rank P1 x) in *.
    assert (nth_error l' k = Some (B NL)) as Nk by (unfold k; rewrite (NS _ Px); exact Nx).
    assert (k < length l') as Hkl by (apply nth_error_Some; congruence).
    destruct (pos_byte ds de l' k NL Nk) as [Hbk HSk].
    destruct (Hconf k Hd Hkl) as [(m & Hm & Hjl & Hlink)|(ls & _ & Hle & Hbl)].
    2:{ exfalso. pose proof (Hbl _ NL Hle (le_n _) Hbk) as K. rewrite NL_not_blank in K. discriminate K. }
    cbv zeta in Hjl, Hlink. fold R in Hjl, Hlink. unfold sindex in Hjl, Hlink. fold P1 in Hjl, Hlink.
    set (y := fst (fst m)) in *.
    assert (P1 y = true) as Py.
    { assert (In (fst m) R) as HmR by (apply in_map; exact Hm).
      pose proof (snf_In_lt R 0 (fst m) S1 HmR) as Hab.
      apply in_rangesb_spec. exists (fst m). split; [exact HmR|]. unfold Ranges.in_range. unfold y. lia. }
    exists y. split; [rewrite <- K'; exact Py|].
    intros z s Hz Nz. destruct (P1 z) eqn:Pz; [left; rewrite <- K'; exact Pz | right].
    assert (nth_error l' (rank P1 z) = Some s) as Nz' by (rewrite (NS _ Pz); exact Nz).
    assert (rank P1 z < length l') as Hzl by (apply nth_error_Some; congruence).
    assert ((k < rank P1 z /\ S (rank P1 z) <= rank P1 y) \/
            (rank P1 y <= rank P1 z /\ S (rank P1 z) <= k)) as Hr.
    { destruct Hz as [[Z1 Z2]|[Z1 Z2]].
      - left. split; [apply rank_lt_kept; assumption|].
        pose proof (rank_lt_kept P1 z y Pz Z2). lia.
      - right. split; [apply rank_monotone; lia|].
        pose proof (rank_lt_kept P1 z x Pz Z2). unfold k. lia. }
    assert (forall q b, pos ds de l' (rank P1 z) <= q -> q < pos ds de l' (S (rank P1 z)) ->
              nth_error (rs ds de l') q = Some b -> is_ws b = true) as Hin.
    { intros q b Q1 Q2 Nq. apply (Hlink q b); [|exact Nq].
      destruct Hr as [[R1 R2]|[R1 R2]].
      - left. pose proof (pos_mono ds de l' k (rank P1 z) ltac:(lia)).
        pose proof (pos_mono ds de l' (S (rank P1 z)) (rank P1 y) R2). lia.
      - right. pose proof (pos_mono ds de l' (rank P1 y) (rank P1 z) R1).
        pose proof (pos_mono ds de l' (S (rank P1 z)) k R2). lia. }
    pose proof (pos_S_lt ds de l' (rank P1 z) Hne Hzl) as Hlt.
    destruct s as [c| |]; cbn [sym_ws].
    + destruct (pos_byte ds de l' _ c Nz') as [Hb _]. apply (Hin _ c (le_n _) Hlt Hb).
    + exfalso. destruct (ds_run ds de l' _ (proj1 Hsp) Nz') as (d0 & Hd0 & _ & Hw0 & _).
      rewrite (Hin _ d0 (le_n _) Hlt Hd0) in Hw0. discriminate Hw0.
    + exfalso. destruct (de_run ds de l' _ (proj2 Hsp) Nz') as (n & lead & m' & Hlen & Hd0 & _ & Hw0 & _ & _ & HS & _).
      assert (pos ds de l' (rank P1 z) <= pos ds de l' (rank P1 z) + n) as Q1 by lia.
      assert (pos ds de l' (rank P1 z) + n < pos ds de l' (S (rank P1 z))) as Q2 by lia.
      rewrite (Hin _ lead Q1 Q2 Hd0) in Hw0. discriminate Hw0.
Qed.

(* ------------------------------------------------------------------------- *)
(** * Part G: the nodes of a tree with their symbol positions; masking and normalising *)

(** What the marker stage looks at: the opening tag body and the symbol positions of the two
    tags (start and end of each). *)
Definition qnode : Type := (str * nat * nat * nat * nat)%type.

Definition posq (doc : list item) (n : node) : qnode :=
  (node_b1 n, fstart doc (node_open n), fstart doc (S (node_open n)),
   fstart doc (node_close n), fstart doc (S (node_close n))).

(** The same, structurally; [sb] is the symbol index of the first symbol. *)
Fixpoint snodes1 (sb : nat) (a : ast) : list qnode :=
  match a with
  | AT _ => []
  | AC _ => []
  | AE b1 b2 kids =>
    (b1, sb, sb + (length b1 + 2), sb + (length b1 + 2) + flens kids,
     sb + (length b1 + 2) + flens kids + (length b2 + 2))
    :: (fix go (s : nat) (l : list ast) : list qnode :=
          match l with
          | [] => []
          | x :: l' => snodes1 s x ++ go (s + flen x) l'
          end) (sb + (length b1 + 2)) kids
  end.
Definition snodes : nat -> list ast -> list qnode :=
  fix go (s : nat) (l : list ast) : list qnode :=
    match l with
    | [] => []
    | x :: l' => snodes1 s x ++ go (s + flen x) l'
    end.

Lemma snodes1_AE sb b1 b2 kids :
  snodes1 sb (AE b1 b2 kids) =
  (b1, sb, sb + (length b1 + 2), sb + (length b1 + 2) + flens kids,
   sb + (length b1 + 2) + flens kids + (length b2 + 2)) :: snodes (sb + (length b1 + 2)) kids.
Proof. reflexivity. Qed.

Lemma snodes_cons sb x f : snodes sb (x :: f) = snodes1 sb x ++ snodes (sb + flen x) f.
Proof. reflexivity. Qed.

Lemma snodes_app : forall a b sb, snodes sb (a ++ b) = snodes sb a ++ snodes (sb + flens a) b.
Proof.
  induction a as [|x a IH]; intros b sb.
  - cbn [app snodes]. unfold flens. cbn. rewrite Nat.add_0_r. reflexivity.
  - cbn [app]. rewrite !snodes_cons, IH, flens_cons, <- app_assoc, Nat.add_assoc. reflexivity.
Qed.

Lemma snodes_ctx_both doc :
  (forall a pre post ib sb, doc = pre ++ items_of a ++ post -> ib = length pre ->
     sb = length (flat pre) -> map (posq doc) (nodes1 ib a) = snodes1 sb a) /\
  (forall g pre post ib sb, doc = pre ++ doc_of g ++ post -> ib = length pre ->
     sb = length (flat pre) -> map (posq doc) (ast_nodes ib g) = snodes sb g).
Proof.
  apply (ast_forest_ind
    (fun a => forall pre post ib sb, doc = pre ++ items_of a ++ post -> ib = length pre ->
       sb = length (flat pre) -> map (posq doc) (nodes1 ib a) = snodes1 sb a)
    (fun g => forall pre post ib sb, doc = pre ++ doc_of g ++ post -> ib = length pre ->
       sb = length (flat pre) -> map (posq doc) (ast_nodes ib g) = snodes sb g)).
  - reflexivity.
  - reflexivity.
  - intros b1 b2 kids IH pre post ib sb Hd Hi Hs.
    rewrite nodes1_AE, snodes1_AE. cbn [map]. f_equal.
    + unfold posq. cbn [node_b1 node_open node_close].
      assert (fstart doc ib = sb) as -> by (apply (fstart_at _ pre _ _ _ Hd Hi Hs)).
      assert (fstart doc (S ib) = sb + (length b1 + 2)) as ->.
      { apply (fstart_at _ (pre ++ [Tag b1]) (doc_of kids ++ Tag b2 :: post)).
        - rewrite Hd, items_AE. rewrite <- !app_assoc. reflexivity.
        - rewrite app_length, Hi. cbn [length]. lia.
        - rewrite flat_app, app_length, flat_tag_len, Hs. reflexivity. }
      assert (fstart doc (S ib + sizes kids) = sb + (length b1 + 2) + flens kids) as ->.
      { apply (fstart_at _ (pre ++ [Tag b1] ++ doc_of kids) (Tag b2 :: post)).
        - rewrite Hd, items_AE. rewrite <- !app_assoc. reflexivity.
        - rewrite !app_length, sizes_doc, Hi. cbn [length]. lia.
        - rewrite !flat_app, !app_length, flat_tag_len, Hs. unfold flens. lia. }
      assert (fstart doc (S (S ib + sizes kids)) =
              sb + (length b1 + 2) + flens kids + (length b2 + 2)) as ->.
      { apply (fstart_at _ (pre ++ items_of (AE b1 b2 kids)) post).
        - rewrite Hd, <- app_assoc. reflexivity.
        - rewrite app_length, size_items, Hi. cbn [size]. fold (sizes kids). lia.
        - rewrite flat_app, app_length, Hs. fold (flen (AE b1 b2 kids)). rewrite flen_AE. lia. }
      reflexivity.
    + apply (IH (pre ++ [Tag b1]) (Tag b2 :: post) (S ib)).
      * rewrite Hd, items_AE. rewrite <- !app_assoc. reflexivity.
      * rewrite app_length, Hi. cbn [length]. lia.
      * rewrite flat_app, app_length, flat_tag_len, Hs. reflexivity.
  - reflexivity.
  - intros x g Hx Hg pre post ib sb Hd Hi Hs. cbn [ast_nodes]. rewrite snodes_cons, map_app. f_equal.
    + apply (Hx pre (doc_of g ++ post) ib); try assumption.
      rewrite Hd, doc_of_cons, <- !app_assoc. reflexivity.
    + apply (Hg (pre ++ items_of x) post (ib + size x)).
      * rewrite Hd, doc_of_cons, <- !app_assoc. reflexivity.
      * rewrite app_length, size_items, Hi. reflexivity.
      * rewrite flat_app, app_length, Hs. reflexivity.
Qed.

(** The positions of the nodes of a forest. *)
Theorem snodes_nodes f : map (posq (doc_of f)) (ast_nodes 0 f) = snodes 0 f.
Proof.
  apply (proj2 (snodes_ctx_both (doc_of f)) f [] [] 0 0); try reflexivity.
  cbn [app]. rewrite app_nil_r. reflexivity.
Qed.

(** ** Normalisation does not move a tag *)

Lemma flen_items a : flen a = flens [a].
Proof. unfold flen, flens. cbn [doc_of flat_map]. rewrite app_nil_r. reflexivity. Qed.

Lemma flens_norm f : flens (ast_norm f) = flens f.
Proof. unfold flens. rewrite ast_norm_doc, flat_norm. reflexivity. Qed.

Lemma flens_acons t nr : flens (acons t nr) = length t + flens nr.
Proof.
  destruct t as [|c t]; [reflexivity|]. destruct nr as [|[u|b|b1 b2 k] r]; cbn [acons];
    rewrite ?flens_cons, ?flen_AT, ?app_length; lia.
Qed.

Lemma snodes_acons sb t nr : snodes sb (acons t nr) = snodes (sb + length t) nr.
Proof.
  destruct t as [|c t]; [cbn [acons length]; rewrite Nat.add_0_r; reflexivity|].
  destruct nr as [|[u|b|b1 b2 k] r]; cbn [acons]; rewrite ?snodes_cons, ?flen_AT; try reflexivity.
  cbn [snodes1 app]. f_equal. change (c :: t ++ u) with ((c :: t) ++ u). rewrite app_length. lia.
Qed.

Lemma snodes_acons' sb x nr : snodes sb (acons' x nr) = snodes1 sb x ++ snodes (sb + flen x) nr.
Proof.
  destruct x as [t|b|b1 b2 k]; cbn [acons']; try reflexivity.
  rewrite snodes_acons, flen_AT. reflexivity.
Qed.

Lemma flens_acons' x nr : flens (acons' x nr) = flen x + flens nr.
Proof.
  destruct x as [t|b|b1 b2 k]; cbn [acons']; rewrite ?flens_cons; try reflexivity.
  rewrite flens_acons, flen_AT. reflexivity.
Qed.

Lemma snodes_norm_both :
  (forall a sb, snodes1 sb (norm_a a) = snodes1 sb a /\ flen (norm_a a) = flen a) /\
  (forall f sb, snodes sb (ast_norm f) = snodes sb f).
Proof.
  apply (ast_forest_ind
    (fun a => forall sb, snodes1 sb (norm_a a) = snodes1 sb a /\ flen (norm_a a) = flen a)
    (fun f => forall sb, snodes sb (ast_norm f) = snodes sb f)).
  - intros t sb. split; reflexivity.
  - intros b sb. split; reflexivity.
  - intros b1 b2 kids IH sb. rewrite norm_a_AE, !snodes1_AE, !flen_AE, flens_norm, IH. split; reflexivity.
  - reflexivity.
  - intros x f Hx Hf sb. cbn [ast_norm]. rewrite snodes_acons', snodes_cons.
    destruct (Hx sb) as [-> ->]. rewrite Hf. reflexivity.
Qed.

Theorem snodes_norm f sb : snodes sb (ast_norm f) = snodes sb f.
Proof. apply (proj2 snodes_norm_both). Qed.

(** ** Masking *)

(** The mask is constant on every tag and equal on the two tags of an element. *)
Fixpoint mres1 (D : nat -> bool) (sb : nat) (a : ast) : Prop :=
  match a with
  | AT _ => True
  | AC b => forall k, k < length b + 2 -> D (sb + k) = D sb
  | AE b1 b2 kids =>
    (forall k, k < length b1 + 2 -> D (sb + k) = D sb) /\
    (forall k, k < length b2 + 2 -> D (sb + (length b1 + 2) + flens kids + k) = D sb) /\
    (fix go (s : nat) (l : list ast) : Prop :=
       match l with
       | [] => True
       | x :: l' => mres1 D s x /\ go (s + flen x) l'
       end) (sb + (length b1 + 2)) kids
  end.
Definition mress (D : nat -> bool) : nat -> list ast -> Prop :=
  fix go (s : nat) (l : list ast) : Prop :=
    match l with
    | [] => True
    | x :: l' => mres1 D s x /\ go (s + flen x) l'
    end.

Lemma mres1_AE D sb b1 b2 kids :
  mres1 D sb (AE b1 b2 kids) =
  ((forall k, k < length b1 + 2 -> D (sb + k) = D sb) /\
   (forall k, k < length b2 + 2 -> D (sb + (length b1 + 2) + flens kids + k) = D sb) /\
   mress D (sb + (length b1 + 2)) kids).
Proof. reflexivity. Qed.

Lemma mress_cons D sb x f : mress D sb (x :: f) = (mres1 D sb x /\ mress D (sb + flen x) f).
Proof. reflexivity. Qed.

Lemma mres_ctx_both D f : pair_respecting D f ->
  (forall a pre post ib sb, doc_of f = pre ++ items_of a ++ post -> ib = length pre ->
     sb = length (flat pre) ->
     (forall n, In n (nodes1 ib a) -> In n (ast_nodes 0 f)) -> mres1 D sb a) /\
  (forall g pre post ib sb, doc_of f = pre ++ doc_of g ++ post -> ib = length pre ->
     sb = length (flat pre) ->
     (forall n, In n (ast_nodes ib g) -> In n (ast_nodes 0 f)) -> mress D sb g).
Proof.
  intros [Hit Hpr].
  assert (forall pre b post ib sb, doc_of f = pre ++ Tag b :: post -> ib = length pre ->
            sb = length (flat pre) -> forall k, k < length b + 2 -> D (sb + k) = D sb) as Htag.
  { intros pre b post ib sb Hd Hi Hs k Hk.
    assert (nth_error (doc_of f) ib = Some (Tag b)) as Hn by (rewrite Hd, Hi; apply nth_ctx).
    assert (fstart (doc_of f) ib = sb) as EF by (apply (fstart_at _ pre _ _ _ Hd Hi Hs)).
    pose proof (Hit ib b Hn (sb + k)) as H. cbn [Nat.add] in H. rewrite EF in H. apply H.
    rewrite (AstCollect.fstart_tag _ ib b Hn), EF. lia. }
  apply (ast_forest_ind
    (fun a => forall pre post ib sb, doc_of f = pre ++ items_of a ++ post -> ib = length pre ->
       sb = length (flat pre) ->
       (forall n, In n (nodes1 ib a) -> In n (ast_nodes 0 f)) -> mres1 D sb a)
    (fun g => forall pre post ib sb, doc_of f = pre ++ doc_of g ++ post -> ib = length pre ->
       sb = length (flat pre) ->
       (forall n, In n (ast_nodes ib g) -> In n (ast_nodes 0 f)) -> mress D sb g)).
  - intros; exact I.
  - intros b pre post ib sb Hd Hi Hs _. cbn [mres1]. cbn [items_of app] in Hd.
    apply (Htag pre b post ib sb Hd Hi Hs).
  - intros b1 b2 kids IH pre post ib sb Hd Hi Hs Hsub. rewrite mres1_AE.
    assert (fstart (doc_of f) ib = sb) as EF by (apply (fstart_at _ pre _ _ _ Hd Hi Hs)).
    assert (fstart (doc_of f) (S ib + sizes kids) = sb + (length b1 + 2) + flens kids) as EF2.
    { apply (fstart_at _ (pre ++ [Tag b1] ++ doc_of kids) (Tag b2 :: post)).
      - rewrite Hd, items_AE. rewrite <- !app_assoc. reflexivity.
      - rewrite !app_length, sizes_doc, Hi. cbn [length]. lia.
      - rewrite !flat_app, !app_length, flat_tag_len, Hs. unfold flens. lia. }
    split; [|split].
    + apply (Htag pre b1 (doc_of kids ++ [Tag b2] ++ post) ib sb); try assumption.
      rewrite Hd, items_AE. rewrite <- !app_assoc. reflexivity.
    + intros k Hk.
      assert (In (b1, b2, ib, S ib + sizes kids) (ast_nodes 0 f)) as Hn0
        by (apply Hsub; rewrite nodes1_AE; left; reflexivity).
      pose proof (Hpr b1 b2 ib _ Hn0) as Hp. rewrite EF, EF2 in Hp. rewrite Hp.
      apply (Htag (pre ++ [Tag b1] ++ doc_of kids) b2 post (S ib + sizes kids)).
      * rewrite Hd, items_AE. rewrite <- !app_assoc. reflexivity.
      * rewrite !app_length, sizes_doc, Hi. cbn [length]. lia.
      * rewrite !flat_app, !app_length, flat_tag_len, Hs. unfold flens. lia.
      * exact Hk.
    + apply (IH (pre ++ [Tag b1]) (Tag b2 :: post) (S ib)).
      * rewrite Hd, items_AE. rewrite <- !app_assoc. reflexivity.
      * rewrite app_length, Hi. cbn [length]. lia.
      * rewrite flat_app, app_length, flat_tag_len, Hs. reflexivity.
      * intros n Hn. apply Hsub. rewrite nodes1_AE. right. exact Hn.
  - intros; exact I.
  - intros x g Hx Hg pre post ib sb Hd Hi Hs Hsub. rewrite mress_cons. cbn [ast_nodes] in Hsub. split.
    + apply (Hx pre (doc_of g ++ post) ib); try assumption.
      * rewrite Hd, doc_of_cons, <- !app_assoc. reflexivity.
      * intros n Hn. apply Hsub. apply in_or_app. left. exact Hn.
    + apply (Hg (pre ++ items_of x) post (ib + size x)).
      * rewrite Hd, doc_of_cons, <- !app_assoc. reflexivity.
      * rewrite app_length, size_items, Hi. reflexivity.
      * rewrite flat_app, app_length, Hs. reflexivity.
      * intros n Hn. apply Hsub. apply in_or_app. right. exact Hn.
Qed.

Theorem pair_respecting_mress D f : pair_respecting D f -> mress D 0 f.
Proof.
  intros H. apply (proj2 (mres_ctx_both D f H) f [] [] 0 0); try reflexivity.
  - cbn [app]. rewrite app_nil_r. reflexivity.
  - intros n Hn. exact Hn.
Qed.

Definition rmap (D : nat -> bool) (q : qnode) : qnode :=
  match q with (b1, a, a', c, c') => (b1, rank D a, rank D a', rank D c, rank D c') end.
Definition keptq (D : nat -> bool) (q : qnode) : bool :=
  match q with (_, a, _, _, _) => negb (D a) end.

Lemma length_kept_from D : forall t sb, length (kept_from sb D t) = rank_from sb D (length t).
Proof.
  induction t as [|c t IH]; intros sb; [reflexivity|].
  cbn [kept_from length rank_from]. destruct (D sb); cbn [length]; rewrite IH; reflexivity.
Qed.

Lemma rank_run_true D sb n : (forall k, k < n -> D (sb + k) = true) -> rank D (sb + n) = rank D sb.
Proof.
  intros H. rewrite rank_add, rank_from_all_true; [lia|]. intros i H1 H2.
  replace i with (sb + (i - sb)) by lia. apply H. lia.
Qed.

Lemma rank_run_false D sb n : (forall k, k < n -> D (sb + k) = false) -> rank D (sb + n) = rank D sb + n.
Proof.
  intros H. rewrite rank_add, rank_from_all_false; [lia|]. intros i H1 H2.
  replace i with (sb + (i - sb)) by lia. apply H. lia.
Qed.

Lemma snodes_mask_both D :
  (forall a sb, mres1 D sb a ->
     snodes (rank D sb) (mask1 D sb a) = map (rmap D) (filter (keptq D) (snodes1 sb a)) /\
     rank D sb + flens (mask1 D sb a) = rank D (sb + flen a)) /\
  (forall f sb, mress D sb f ->
     snodes (rank D sb) (ast_mask D sb f) = map (rmap D) (filter (keptq D) (snodes sb f)) /\
     rank D sb + flens (ast_mask D sb f) = rank D (sb + flens f)).
Proof.
  apply (ast_forest_ind
    (fun a => forall sb, mres1 D sb a ->
       snodes (rank D sb) (mask1 D sb a) = map (rmap D) (filter (keptq D) (snodes1 sb a)) /\
       rank D sb + flens (mask1 D sb a) = rank D (sb + flen a))
    (fun f => forall sb, mress D sb f ->
       snodes (rank D sb) (ast_mask D sb f) = map (rmap D) (filter (keptq D) (snodes sb f)) /\
       rank D sb + flens (ast_mask D sb f) = rank D (sb + flens f))).
  - intros t sb _. cbn [mask1]. split; [reflexivity|].
    rewrite flens_cons, !flen_AT, length_kept_from, rank_add. unfold flens. cbn. lia.
  - intros b sb H. cbn [mres1] in H. cbn [mask1]. rewrite flen_AC. destruct (D sb) eqn:E0.
    + split; [reflexivity|]. rewrite rank_run_true; [unfold flens; cbn; lia|].
      intros k Hk. apply (H k Hk).
    + split; [reflexivity|]. rewrite flens_cons, flen_AC. rewrite rank_run_false; [unfold flens; cbn; lia|].
      intros k Hk. apply (H k Hk).
  - intros b1 b2 kids IH sb H. rewrite mres1_AE in H. destruct H as (H1 & H2 & Hk).
    destruct (IH _ Hk) as [IH1 IH2]. rewrite mask1_AE, snodes1_AE, flen_AE.
    cbn [filter keptq]. destruct (D sb) eqn:E0; cbn [negb].
    + assert (rank D (sb + (length b1 + 2)) = rank D sb) as R1.
      { apply rank_run_true. intros k Hk'. apply (H1 k Hk'). }
      rewrite R1 in IH1, IH2. split; [exact IH1|].
      rewrite IH2. replace (sb + (length b1 + 2 + flens kids + (length b2 + 2)))
        with (sb + (length b1 + 2) + flens kids + (length b2 + 2)) by lia.
      symmetry. apply rank_run_true. intros k Hk'. apply (H2 k Hk').
    + assert (rank D (sb + (length b1 + 2)) = rank D sb + (length b1 + 2)) as R1.
      { apply rank_run_false. intros k Hk'. apply (H1 k Hk'). }
      assert (rank D (sb + (length b1 + 2) + flens kids + (length b2 + 2)) =
              rank D (sb + (length b1 + 2) + flens kids) + (length b2 + 2)) as R2.
      { apply rank_run_false. intros k Hk'. apply (H2 k Hk'). }
      rewrite R1 in IH1, IH2. split.
      * rewrite snodes_cons, snodes1_AE. cbn [snodes app map rmap]. rewrite app_nil_r, IH1, R2, R1, <- IH2. reflexivity.
      * rewrite flens_cons, flen_AE. unfold flens at 2. cbn [doc_of flat_map flat length].
        replace (sb + (length b1 + 2 + flens kids + (length b2 + 2)))
          with (sb + (length b1 + 2) + flens kids + (length b2 + 2)) by lia.
        rewrite R2, <- IH2. lia.
  - intros sb _. cbn [ast_mask snodes filter map]. unfold flens. cbn [doc_of flat_map flat length]. rewrite !Nat.add_0_r. split; reflexivity.
  - intros x f Hx Hf sb H. rewrite mress_cons in H. destruct H as [H1 H2].
    destruct (Hx sb H1) as [X1 X2]. destruct (Hf _ H2) as [F1 F2].
    rewrite ast_mask_cons, snodes_app, snodes_cons, filter_app, map_app, X1, X2, F1. split; [reflexivity|].
    unfold flens in *. rewrite doc_of_app, flat_app, app_length, doc_of_cons, flat_app, app_length.
    fold (flen x). rewrite Nat.add_assoc, X2, F2. f_equal. lia.
Qed.

(** The nodes of the masked and normalised tree: the nodes whose opening tag is kept, at the
    ranks of their positions. *)
Theorem masked_posq D f : pair_respecting D f ->
  map (posq (doc_of (ast_norm (ast_mask D 0 f)))) (ast_nodes 0 (ast_norm (ast_mask D 0 f))) =
  map (rmap D) (filter (keptq D) (map (posq (doc_of f)) (ast_nodes 0 f))).
Proof.
  intros H. rewrite !snodes_nodes, snodes_norm.
  pose proof (proj1 (proj2 (snodes_mask_both D) f 0 (pair_respecting_mress D f H))) as E.
  rewrite rank_0 in E. exact E.
Qed.

(* ------------------------------------------------------------------------- *)
(** * Part H: the second run against the single run *)

(** ** The marker stage over [qnode]s *)

Definition q_rr (cfg : config) (l : list sym) (q : qnode) : option removable_range :=
  match q with
  | (b1, a, a', c, c') =>
    match status cfg (el_of b1) with
    | Some true =>
      let r := if is_unwrap b1 then a_unwrap l a a' c c' else ((a, c'), None) in
      if fst (fst r) <? snd (fst r) then Some r else None
    | _ => None
    end
  end.

Definition q_del (cfg : config) (l : list sym) (q : qnode) (i : nat) : bool :=
  match q_rr cfg l q with Some r => rr_hasb r i | None => false end.

Lemma node_rr_q cfg doc n : node_rr cfg doc n = q_rr cfg (flat doc) (posq doc n).
Proof.
  unfold node_rr, a_element_range, q_rr, posq, a_create, is_unwrap.
  destruct (status cfg (el_of (node_b1 n))) as [[|]|]; try reflexivity.
  destruct (has_attr S_UNWRAP (el_attrs (el_of (node_b1 n)))).
  - destruct (a_unwrap (flat doc) (fstart doc (node_open n)) (fstart doc (S (node_open n)))
                (fstart doc (node_close n)) (fstart doc (S (node_close n)))) as [[x y] cl].
    cbn [fst snd]. destruct (x <? y); reflexivity.
  - cbn [fst snd]. destruct (fstart doc (node_open n) <? fstart doc (S (node_close n))); reflexivity.
Qed.

Lemma existsb_map {A B0} (g : B0 -> bool) (h : A -> B0) l : existsb g (map h l) = existsb (fun x => g (h x)) l.
Proof. induction l as [|x l IH]; [reflexivity|]. cbn [map existsb]. rewrite IH. reflexivity. Qed.

Lemma existsb_filter {A} (g k : A -> bool) l : existsb g (filter k l) = existsb (fun x => k x && g x) l.
Proof.
  induction l as [|x l IH]; [reflexivity|]. cbn [filter existsb]. destruct (k x); cbn [existsb andb orb]; rewrite IH; reflexivity.
Qed.

Lemma del1u_q cfg g i :
  del1u cfg g i =
  existsb (fun q => q_del cfg (flat (doc_of g)) q i) (map (posq (doc_of g)) (ast_nodes 0 g)).
Proof.
  unfold del1u. rewrite existsb_map. apply existsb_ext_in. intros n _.
  unfold node_del, q_del. rewrite node_rr_q. reflexivity.
Qed.

(** ** Where a start delimiter symbol comes from *)

Lemma flat_DS_inv : forall doc y, nth_error (flat doc) y = Some DS ->
  exists it b, nth_error doc it = Some (Tag b) /\ fstart doc it = y.
Proof.
  induction doc as [|x doc IH]; intros y H; [destruct y; discriminate H|].
  rewrite flat_cons in H. destruct (Nat.lt_ge_cases y (length (flat_item x))) as [L|L].
  - rewrite nth_error_app1 in H by exact L. destruct x as [t|b]; cbn [flat_item] in H.
    + rewrite nth_error_map in H. destruct (nth_error t y); discriminate H.
    + destruct y as [|y]; [exists 0, b; split; [reflexivity | apply DocMask.fstart_0]|].
      cbn [nth_error] in H. cbn [flat_item length] in L. rewrite app_length, map_length in L. cbn [length] in L.
      destruct (Nat.lt_ge_cases y (length b)) as [L2|L2].
      * rewrite nth_error_app1 in H by (rewrite map_length; exact L2).
        rewrite nth_error_map in H. destruct (nth_error b y); discriminate H.
      * rewrite nth_error_app2 in H by (rewrite map_length; exact L2). rewrite map_length in H.
        replace (y - length b) with 0 in H by lia. discriminate H.
  - rewrite nth_error_app2 in H by exact L. destruct (IH _ H) as (it & b & Hit & E).
    exists (S it), b. split; [exact Hit|]. rewrite fstart_cons, E. lia.
Qed.

(** ** What is used of the mask of the first run *)

Definition run_facts (cfg : config) (f : list ast) (D : nat -> bool) : Prop :=
  pair_respecting D f /\
  (forall it b, nth_error (doc_of f) it = Some (Tag b) ->
     D (fstart (doc_of f) it) = tdel cfg f it) /\
  (forall i, del1u cfg f i = true -> D i = true) /\
  (forall i x, D i = true -> del1u cfg f i = false ->
     nth_error (flat (doc_of f)) i = Some x -> sym_ws x = true) /\
  (forall j k x, j < k -> nth_error (flat (doc_of f)) j = Some x -> sym_code x = true ->
     D j = false ->
     (forall y z, j < y -> y < k -> nth_error (flat (doc_of f)) y = Some z ->
                  del1u cfg f y = true \/ sym_blank z = true) ->
     nth_error (flat (doc_of f)) k = Some (B NL) -> del1u cfg f k = false -> D k = false) /\
  (forall x, D x = true -> del1u cfg f x = false ->
     nth_error (flat (doc_of f)) x = Some (B NL) ->
     exists y, del1u cfg f y = true /\
       forall z s, (x < z /\ z < y) \/ (y < z /\ z < x) -> nth_error (flat (doc_of f)) z = Some s ->
                   del1u cfg f z = true \/ sym_ws s = true).

Lemma sym_code_not_ws x : sym_code x = true -> sym_ws x = false.
Proof. destruct x as [c| |]; cbn [sym_code sym_ws]; intros H; try reflexivity; try discriminate H.
  apply negb_true_iff in H. exact H. Qed.

Lemma sym_ws_not_nl_blank z : sym_ws z = true -> z <> B NL -> sym_blank z = true.
Proof.
  destruct z as [c| |]; cbn [sym_ws sym_blank]; intros H N; try discriminate H.
  unfold is_ws in H. unfold is_blank. destruct (beq c NL) eqn:E.
  - apply beq_eq in E. subst c. exfalso. apply N. reflexivity.
  - rewrite orb_false_r in H. exact H.
Qed.

(** The last code symbol in front of position [lo + 1 + n], when [lo] holds a code symbol and
    only bytes other than line breaks follow. *)
Lemma last_code (l : list sym) lo x0 : nth_error l lo = Some x0 -> sym_code x0 = true -> forall n,
  (forall y, lo < y -> y < lo + 1 + n -> exists c, nth_error l y = Some (B c) /\ c <> NL) ->
  exists j x, lo <= j /\ j < lo + 1 + n /\ nth_error l j = Some x /\ sym_code x = true /\
    forall y z, j < y -> y < lo + 1 + n -> nth_error l y = Some z -> sym_blank z = true.
Proof.
  intros N0 C0. induction n as [|n IH]; intros H.
  - exists lo, x0. repeat split; try assumption; try lia.
  - destruct IH as (j & x & J1 & J2 & Nj & Cj & Hb).
    { intros y Y1 Y2. apply H; lia. }
    destruct (H (lo + 1 + n) ltac:(lia) ltac:(lia)) as (c & Nc & Cc).
    destruct (is_ws c) eqn:W.
    + exists j, x. repeat split; try assumption; try lia. intros y z Y1 Y2 Ny.
      destruct (Nat.eq_dec y (lo + 1 + n)) as [->|Ne]; [|apply (Hb y z Y1 ltac:(lia) Ny)].
      rewrite Nc in Ny. inversion Ny; subst z. apply sym_ws_not_nl_blank; [exact W|].
      intros E. inversion E. contradiction.
    + exists (lo + 1 + n), (B c). repeat split; try assumption; try lia.
      cbn [sym_code]. rewrite W. reflexivity.
Qed.

(** A line break behind a code symbol on its line is kept, when the marker stage keeps the whole
    stretch. *)
Lemma line_break_kept cfg f D lo k x0 : run_facts cfg f D ->
  nth_error (flat (doc_of f)) lo = Some x0 -> sym_code x0 = true -> lo < k ->
  (forall y, lo < y -> y < k -> exists c, nth_error (flat (doc_of f)) y = Some (B c) /\ c <> NL) ->
  nth_error (flat (doc_of f)) k = Some (B NL) ->
  (forall y, lo <= y -> y <= k -> del1u cfg f y = false) ->
  D k = false.
Proof.
  intros (_ & _ & _ & Hws & HQ & _) N0 C0 Hlk Hb Nk Hd.
  destruct (last_code _ lo x0 N0 C0 (k - lo - 1)) as (j & x & J1 & J2 & Nj & Cj & Hbl).
  { intros y Y1 Y2. apply Hb; lia. }
  replace (lo + 1 + (k - lo - 1)) with k in * by lia.
  apply (HQ j k x J2 Nj Cj).
  - destruct (D j) eqn:Dj; [|reflexivity].
    assert (j <= k) as Jk by lia. pose proof (Hws j x Dj (Hd j J1 Jk) Nj) as K.
    rewrite (sym_code_not_ws x Cj) in K. discriminate K.
  - intros y z Y1 Y2 Ny. right. apply (Hbl y z Y1 Y2 Ny).
  - exact Nk.
  - apply Hd; lia.
Qed.

(** ** The marker stage keeps the wrapper texts of a kept node *)

Lemma item_of_pos doc it x lo hi : fstart doc it <= x < fstart doc (S it) ->
  fstart doc lo <= x -> x < fstart doc hi -> lo <= it /\ it < hi.
Proof.
  intros Hx H1 H2. pose proof (fstart_mono doc) as HF. split.
  - destruct (Nat.le_gt_cases lo it) as [K|K]; [exact K|]. pose proof (HF (S it) lo K). lia.
  - destruct (Nat.lt_ge_cases it hi) as [K|K]; [exact K|]. pose proof (HF hi it K). lia.
Qed.

(** A symbol of the text item next to the opening tag, or next to the closing tag, of a node
    whose opening tag the marker stage keeps is kept by the marker stage. *)
Lemma kept_text_free cfg f n it t x : strict f -> In n (ast_nodes 0 f) ->
  tdel cfg f (node_open n) = false ->
  it = S (node_open n) \/ it = node_close n - 1 ->
  nth_error (doc_of f) it = Some (Txt t) ->
  fstart (doc_of f) it <= x < fstart (doc_of f) (S it) ->
  del1u cfg f x = false.
Proof.
  intros Hs Hn Hk Hit Ht Hx. destruct (del1u cfg f x) eqn:E; [exfalso | reflexivity].
  apply del1u_spec in E. destruct E as (m & rr & Hm & Er & Hin).
  pose proof (tdel_node cfg f n Hn) as Hoc. rewrite Hk in Hoc. symmetry in Hoc.
  pose proof (node_tags f n Hn) as Kn. cbv zeta in Kn. destruct Kn as (Loc & _ & _ & (b1 & To) & (b2 & Tc)).
  pose proof (node_tags f m Hm) as Km. cbv zeta in Km. destruct Km as (Lm & _ & _ & (b1m & Tom) & (b2m & Tcm)).
  pose proof (ast_nodes_laminar f 0 n m Hn Hm) as Lam. unfold laminar in Lam.
  set (doc := doc_of f) in *. set (F := fstart doc) in *.
  set (o := node_open n) in *. set (c := node_close n) in *.
  set (om := node_open m) in *. set (cm := node_close m) in *.
  assert (it <> o) as N1 by (intros ->; congruence).
  assert (it <> c) as N2 by (intros ->; congruence).
  assert (it <> om) as N3 by (intros ->; congruence).
  assert (it <> cm) as N4 by (intros ->; congruence).
  assert (forall i, (i = o \/ i = c) ->
            (match snd rr with None => om <= i <= cm | Some _ => i = om \/ i = cm end) -> False) as Hcontra.
  { intros i Hi Hmatch.
    assert (tdel cfg f i = true) as K.
    { apply tdel_spec. exists m, rr. split; [exact Hm|]. split; [exact Er | exact Hmatch]. }
    destruct Hi as [->| ->]; congruence. }
  pose proof (node_rr_shape cfg doc m rr Er) as Sh. cbv zeta in Sh. fold F om cm in Sh.
  destruct Sh as [[-> L]|(e & s & -> & L1 & L2 & _ & _ & _)].
  - unfold rr_ranges in Hin. cbn [fst snd] in Hin. apply in_ranges_single in Hin.
    destruct Hin as [H1 H2]. cbn [fst snd] in H1, H2.
    destruct (item_of_pos doc it x om (S cm) Hx H1 H2) as [I1 I2].
    destruct Hit as [Hit|Hit].
    + apply (Hcontra o (or_introl eq_refl)). cbn [snd]. lia.
    + apply (Hcontra c (or_intror eq_refl)). cbn [snd]. lia.
  - pose proof (strict_parts cfg f m e (S s) (F (S cm)) Hs Hm Er) as K. cbv zeta in K.
    fold doc F om cm in K. destruct K as (_ & K1 & K2 & K3 & K4 & K5 & _).
    unfold rr_ranges in Hin. cbn [fst snd] in Hin.
    change (in_ranges ([(F om, e)] ++ [(S s, F (S cm))]) x) in Hin.
    apply in_ranges_app in Hin. destruct Hin as [Hin|Hin]; apply in_ranges_single in Hin;
      destruct Hin as [H1 H2]; cbn [fst snd] in H1, H2.
    + assert (x < F (S (S om))) as H2' by lia.
      destruct (item_of_pos doc it x om (S (S om)) Hx H1 H2') as [I1 I2].
      apply (Hcontra o (or_introl eq_refl)). cbn [snd]. left.
      destruct Hit as [Hit|Hit]; lia.
    + assert (F (cm - 1) <= x) as H1' by lia.
      destruct (item_of_pos doc it x (cm - 1) (S cm) Hx H1' H2) as [I1 I2].
      destruct Hit as [Hit|Hit].
      * apply (Hcontra o (or_introl eq_refl)). cbn [snd]. left. lia.
      * apply (Hcontra c (or_intror eq_refl)). cbn [snd]. right. lia.
Qed.

(** The marker stage keeps the two tags of such a node. *)
Lemma kept_tags_free cfg f n x : strict f -> In n (ast_nodes 0 f) ->
  tdel cfg f (node_open n) = false ->
  (fstart (doc_of f) (node_open n) <= x < fstart (doc_of f) (S (node_open n)) \/
   fstart (doc_of f) (node_close n) <= x < fstart (doc_of f) (S (node_close n))) ->
  del1u cfg f x = false.
Proof.
  intros Hs Hn Hk Hx.
  pose proof (node_tags f n Hn) as Kn. cbv zeta in Kn. destruct Kn as (_ & _ & _ & (b1 & To) & (b2 & Tc)).
  destruct Hx as [Hx|Hx].
  - rewrite (del1u_tag cfg f _ b1 x Hs To Hx). exact Hk.
  - rewrite (del1u_tag cfg f _ b2 x Hs Tc Hx), <- (tdel_node cfg f n Hn). exact Hk.
Qed.

(** ** The wrapper lines, by offsets into the two texts *)

Lemma nth_not_in (d : str) k c : ~ In NL d -> nth_error d k = Some c -> c <> NL.
Proof. intros Hn H E. subst c. apply Hn. apply (nth_error_In _ _ H). Qed.

Lemma has_code_nth w : has_code w -> exists k c, nth_error w k = Some c /\ is_ws c = false.
Proof. intros (c & Hin & Hc). apply In_nth_error in Hin. destruct Hin as [k Hk]. exists k, c. auto. Qed.

Lemma nth_error_ex' {A} (l : list A) i : i < length l -> exists x, nth_error l i = Some x.
Proof. intros H. destruct (nth_error l i) eqn:E; [eexists; reflexivity | apply nth_error_None in E; lia]. Qed.

(** The first text: the two line breaks [xa < xb], nothing else is a line break before [xb], and a
    code byte [xc] between them. *)
Lemma open_wrap_pos t : open_wrap t ->
  exists xa xb xc, xa < xc /\ xc < xb /\ xb < length t /\
    nth_error t xa = Some NL /\ nth_error t xb = Some NL /\
    (forall y, y < xb -> y <> xa -> exists c, nth_error t y = Some c /\ c <> NL) /\
    (exists c, nth_error t xc = Some c /\ is_ws c = false).
Proof.
  intros (r1 & w1 & rest1 & -> & N1 & N2 & Hc). destruct (has_code_nth w1 Hc) as (k & c & Hk & Wc).
  assert (k < length w1) as Lk by (apply nth_error_Some; congruence).
  exists (length r1), (length r1 + 1 + length w1), (length r1 + 1 + k).
  split; [lia|]. split; [lia|]. split; [rewrite !app_length; cbn [length]; rewrite app_length; cbn [length]; lia|].
  split; [apply nth_ctx|]. split; [|split].
  - rewrite nth_error_app2 by lia. replace (length r1 + 1 + length w1 - length r1) with (S (length w1)) by lia.
    cbn [nth_error]. apply nth_ctx.
  - intros y Y1 Y2. destruct (Nat.lt_ge_cases y (length r1)) as [L|L].
    + rewrite nth_error_app1 by exact L. destruct (nth_error_ex' r1 y L) as (d & Hd).
      exists d. split; [exact Hd | apply (nth_not_in r1 y d N1 Hd)].
    + rewrite nth_error_app2 by lia. destruct (y - length r1) as [|y'] eqn:Ey; [lia|].
      cbn [nth_error]. rewrite nth_error_app1 by lia. destruct (nth_error_ex' w1 y' ltac:(lia)) as (d & Hd).
      exists d. split; [exact Hd | apply (nth_not_in w1 y' d N2 Hd)].
  - exists c. split; [|exact Wc]. rewrite nth_error_app2 by lia.
    replace (length r1 + 1 + k - length r1) with (S k) by lia. cbn [nth_error].
    rewrite nth_error_app1 by exact Lk. exact Hk.
Qed.

(** The last text: the two line breaks [xc < xd], nothing else is a line break behind [xc], and a
    code byte [xw] between them. *)
Lemma close_wrap_pos t : close_wrap t ->
  exists xc xd xw, xc < xw /\ xw < xd /\ xd < length t /\
    nth_error t xc = Some NL /\ nth_error t xd = Some NL /\
    (forall y, xc < y -> y < length t -> y <> xd -> exists c, nth_error t y = Some c /\ c <> NL) /\
    (exists c, nth_error t xw = Some c /\ is_ws c = false).
Proof.
  intros (rest2 & w2 & r2 & -> & N1 & N2 & Hc). destruct (has_code_nth w2 Hc) as (k & c & Hk & Wc).
  assert (k < length w2) as Lk by (apply nth_error_Some; congruence).
  assert (length (rest2 ++ NL :: w2 ++ NL :: r2) = length rest2 + 1 + length w2 + 1 + length r2) as EL.
  { rewrite !app_length. cbn [length]. rewrite app_length. cbn [length]. lia. }
  exists (length rest2), (length rest2 + 1 + length w2), (length rest2 + 1 + k).
  split; [lia|]. split; [lia|]. split; [lia|].
  split; [apply nth_ctx|]. split; [|split].
  - rewrite nth_error_app2 by lia. replace (length rest2 + 1 + length w2 - length rest2) with (S (length w2)) by lia.
    cbn [nth_error]. apply nth_ctx.
  - intros y Y1 Y2 Y3. rewrite EL in Y2. rewrite nth_error_app2 by lia.
    destruct (y - length rest2) as [|y'] eqn:Ey; [lia|]. cbn [nth_error].
    destruct (Nat.lt_ge_cases y' (length w2)) as [L|L].
    + rewrite nth_error_app1 by exact L. destruct (nth_error_ex' w2 y' L) as (d & Hd).
      exists d. split; [exact Hd | apply (nth_not_in w2 y' d N1 Hd)].
    + rewrite nth_error_app2 by exact L. destruct (y' - length w2) as [|y''] eqn:Ey'; [lia|].
      cbn [nth_error]. destruct (nth_error_ex' r2 y'' ltac:(lia)) as (d & Hd).
      exists d. split; [exact Hd | apply (nth_not_in r2 y'' d N2 Hd)].
  - exists c. split; [|exact Wc]. rewrite nth_error_app2 by lia.
    replace (length rest2 + 1 + k - length rest2) with (S k) by lia. cbn [nth_error].
    rewrite nth_error_app1 by exact Lk. exact Hk.
Qed.

Lemma txt_sym_B doc i t k c : nth_error doc i = Some (Txt t) -> nth_error t k = Some c ->
  nth_error (flat doc) (fstart doc i + k) = Some (B c).
Proof.
  intros Hi Hk. assert (k < length t) as L by (apply nth_error_Some; congruence).
  rewrite (txt_sym doc i t k Hi L), Hk. reflexivity.
Qed.

(** The end delimiter of a tag item. *)
Lemma tag_DE doc it b : nth_error doc it = Some (Tag b) ->
  nth_error (flat doc) (fstart doc (S it) - 1) = Some DE /\ fstart doc it < fstart doc (S it) - 1.
Proof.
  intros H. pose proof (sym_at_body doc it (length b) b H (le_n _)) as E. cbn [aidx] in E.
  rewrite Nat.ltb_irrefl in E. rewrite (AstCollect.fstart_tag doc it b H).
  replace (fstart doc it + length b + 2 - 1) with (fstart doc it + 1 + length b) by lia.
  split; [exact E | lia].
Qed.

(** ** Small tools *)

Lemma max_true (P : nat -> bool) lo : forall d hi, hi - lo = d ->
  (exists y, lo <= y /\ y <= hi /\ P y = true) ->
  exists y, lo <= y /\ y <= hi /\ P y = true /\ forall y', y < y' -> y' <= hi -> P y' = false.
Proof.
  induction d as [|d IH]; intros hi Hd (y & Y1 & Y2 & Py).
  - exists y. split; [exact Y1|]. split; [exact Y2|]. split; [exact Py|]. intros y' H1 H2. lia.
  - destruct (P hi) eqn:E.
    + exists hi. split; [lia|]. split; [lia|]. split; [exact E|]. intros y' H1 H2. lia.
    + destruct (IH (hi - 1) ltac:(lia)) as (m & M1 & M2 & Pm & Hm).
      { exists y. split; [exact Y1|]. split; [|exact Py].
        destruct (Nat.eq_dec y hi) as [->|Ne]; [congruence | lia]. }
      exists m. split; [exact M1|]. split; [lia|]. split; [exact Pm|]. intros y' H1 H2.
      destruct (Nat.eq_dec y' hi) as [->|Ne]; [exact E | apply Hm; lia].
Qed.

Lemma min_true (P : nat -> bool) hi : forall d lo, hi - lo = d -> lo <= hi -> P hi = true ->
  exists p, lo <= p /\ p <= hi /\ P p = true /\ forall y, lo <= y -> y < p -> P y = false.
Proof.
  induction d as [|d IH]; intros lo Hd Hle Ph.
  - exists hi. split; [lia|]. split; [lia|]. split; [exact Ph|]. intros y H1 H2. lia.
  - destruct (P lo) eqn:E.
    + exists lo. split; [lia|]. split; [lia|]. split; [exact E|]. intros y H1 H2. lia.
    + destruct (IH (S lo) ltac:(lia) ltac:(lia) Ph) as (p & P1 & P2 & Pp & Hp).
      exists p. split; [lia|]. split; [exact P2|]. split; [exact Pp|]. intros y H1 H2.
      destruct (Nat.eq_dec y lo) as [->|Ne]; [exact E | apply Hp; lia].
Qed.

(** Over kept indices the rank preserves and reflects the order. *)
Lemma rank_leb_kept D a i : D a = false -> D i = false -> (rank D a <=? rank D i) = (a <=? i).
Proof.
  intros Ha Hi. destruct (Nat.leb_spec a i) as [L|L].
  - apply Nat.leb_le. apply rank_monotone. exact L.
  - apply Nat.leb_gt. apply rank_lt_kept; assumption.
Qed.

Lemma rank_ltb_kept D i c : D i = false -> (rank D i <? rank D c) = (i <? c).
Proof.
  intros Hi. destruct (Nat.ltb_spec i c) as [L|L].
  - apply Nat.ltb_lt. apply rank_lt_kept; assumption.
  - apply Nat.ltb_ge. apply rank_monotone. exact L.
Qed.

Lemma rank_inj_kept D i j : D i = false -> D j = false -> rank D i = rank D j -> i = j.
Proof.
  intros Hi Hj E. destruct (Nat.lt_trichotomy i j) as [L|[L|L]]; [|exact L|].
  - pose proof (rank_lt_kept D i j Hi L). lia.
  - pose proof (rank_lt_kept D j i Hj L). lia.
Qed.

(** A range with a non-empty first part deletes [i]. *)
Definition rdel (r : removable_range) (i : nat) : bool :=
  if fst (fst r) <? snd (fst r) then rr_hasb r i else false.

Lemma q_del_rdel cfg l b1 a a' c c' i :
  q_del cfg l (b1, a, a', c, c') i =
  match status cfg (el_of b1) with
  | Some true => rdel (if is_unwrap b1 then a_unwrap l a a' c c' else ((a, c'), None)) i
  | _ => false
  end.
Proof.
  unfold q_del, q_rr, rdel. destruct (status cfg (el_of b1)) as [[|]|]; try reflexivity.
  cbv zeta. set (r := if is_unwrap b1 then a_unwrap l a a' c c' else (a, c', None)).
  destruct (fst (fst r) <? snd (fst r)); reflexivity.
Qed.

Lemma rdel_span_rank D a c' i : D a = false -> D i = false ->
  rdel ((rank D a, rank D c'), None) (rank D i) = rdel ((a, c'), None) i.
Proof.
  intros Ha Hi. unfold rdel. cbn [fst snd]. rewrite !rr_hasb_span.
  rewrite (rank_ltb_kept D a c' Ha), (rank_leb_kept D a i Ha Hi), (rank_ltb_kept D i c' Hi). reflexivity.
Qed.

Lemma rdel_parts_rank D a e s c' i : D a = false -> D s = false -> D i = false ->
  rdel ((rank D a, rank D e), Some (S (rank D s), rank D c')) (rank D i) =
  rdel ((a, e), Some (S s, c')) i.
Proof.
  intros Ha Hs Hi. unfold rdel. cbn [fst snd]. rewrite !rr_hasb_parts.
  rewrite (rank_ltb_kept D a e Ha), (rank_leb_kept D a i Ha Hi), (rank_ltb_kept D i e Hi),
    (rank_ltb_kept D i c' Hi).
  change (S (rank D s) <=? rank D i) with (rank D s <? rank D i).
  change (S s <=? i) with (s <? i). rewrite (rank_ltb_kept D s i Hs). reflexivity.
Qed.

(** ** A kept unwrap-block node with two wrapper texts, before and after the first run *)

Lemma a_is_nl_B l y : nth_error l y = Some (B NL) -> a_is_nl l y = true.
Proof. intros H. unfold a_is_nl. rewrite H. reflexivity. Qed.

Lemma a_is_nl_false l y z : nth_error l y = Some z -> a_is_nl l y = false -> z <> B NL.
Proof. intros H E ->. rewrite (a_is_nl_B l y H) in E. discriminate E. Qed.

Lemma unwrap_two_rank cfg f D n t1 t2 i x :
  strict f -> run_facts cfg f D -> In n (ast_nodes 0 f) ->
  tdel cfg f (node_open n) = false ->
  S (S (node_open n)) < node_close n ->
  nth_error (doc_of f) (S (node_open n)) = Some (Txt t1) ->
  nth_error (doc_of f) (node_close n - 1) = Some (Txt t2) ->
  open_wrap t1 -> close_wrap t2 ->
  D i = false -> nth_error (flat (doc_of f)) i = Some x -> sym_ws x = false ->
  rdel (a_unwrap (sdel_from 0 D (flat (doc_of f)))
          (rank D (fstart (doc_of f) (node_open n))) (rank D (fstart (doc_of f) (S (node_open n))))
          (rank D (fstart (doc_of f) (node_close n))) (rank D (fstart (doc_of f) (S (node_close n)))))
       (rank D i)
  = rdel (a_unwrap (flat (doc_of f))
            (fstart (doc_of f) (node_open n)) (fstart (doc_of f) (S (node_open n)))
            (fstart (doc_of f) (node_close n)) (fstart (doc_of f) (S (node_close n)))) i.
Proof.
  intros Hs RF Hn Hk Lc T1 T2 OW CW Di Ni Wx.
  pose proof RF as (Hpr & Htag & Hsup & Hws & HQ & HFk).
  pose proof (node_tags f n Hn) as Kn. cbv zeta in Kn.
  destruct Kn as (Loc & So & Sc & (b1 & To) & (b2 & Tc)).
  set (doc := doc_of f) in *. set (F := fstart doc) in *. set (l := flat doc) in *.
  set (o := node_open n) in *. set (c := node_close n) in *.
  pose proof (fstart_mono doc) as HF. fold F in HF.
  assert (S (c - 1) = c) as Ec1 by lia.
  pose proof (txt_fstart doc (S o) t1 T1) as E1. fold F in E1.
  pose proof (txt_fstart doc (c - 1) t2 T2) as E2. rewrite Ec1 in E2. fold F in E2.
  pose proof (HF (S (S o)) (c - 1) ltac:(lia)) as M1.
  pose proof (fstart_le doc c) as Lcl. fold F l in Lcl.
  assert (D (F o) = false) as Da by (pose proof (Htag o b1 To) as K; rewrite Hk in K; exact K).
  assert (forall y, F (S o) <= y < F (S (S o)) -> del1u cfg f y = false) as Hfree1.
  { intros y Hy. apply (kept_text_free cfg f n (S o) t1 y Hs Hn Hk (or_introl eq_refl) T1 Hy). }
  assert (forall y, F (c - 1) <= y < F c -> del1u cfg f y = false) as Hfree2.
  { intros y Hy. apply (kept_text_free cfg f n (c - 1) t2 y Hs Hn Hk (or_intror eq_refl) T2).
    fold doc F. rewrite Ec1. exact Hy. }
  assert (forall y, F o <= y < F (S o) -> del1u cfg f y = false) as Hfree0.
  { intros y Hy. apply (kept_tags_free cfg f n y Hs Hn Hk). left. exact Hy. }
  (* the opening side *)
  destruct (open_wrap_pos t1 OW) as (xa & xb & xc & X1 & X2 & X3 & Na & Nb & Hnn & (cc0 & Ncd & Wc)).
  set (pa := F (S o) + xa). set (pb := F (S o) + xb). set (pcode := F (S o) + xc).
  assert (nth_error l pa = Some (B NL)) as La by (apply (txt_sym_B doc (S o) t1 xa NL T1 Na)).
  assert (nth_error l pb = Some (B NL)) as Lb by (apply (txt_sym_B doc (S o) t1 xb NL T1 Nb)).
  assert (nth_error l pcode = Some (B cc0)) as Lcode by (apply (txt_sym_B doc (S o) t1 xc cc0 T1 Ncd)).
  assert (forall y, F (S o) <= y -> y < pb -> y <> pa -> exists d, nth_error l y = Some (B d) /\ d <> NL) as Hnn'.
  { intros y Y1 Y2 Y3. destruct (Hnn (y - F (S o)) ltac:(unfold pb in Y2; lia) ltac:(unfold pa in Y3; lia))
      as (d & Nd & Hd).
    exists d. split; [|exact Hd]. replace y with (F (S o) + (y - F (S o))) by lia.
    apply (txt_sym_B doc (S o) t1 _ d T1 Nd). }
  destruct (tag_DE doc o b1 To) as [LDE LtDE]. fold F l in LDE, LtDE.
  assert (D pa = false) as Dpa.
  { apply (line_break_kept cfg f D (F (S o) - 1) pa DE RF LDE eq_refl); [unfold pa; lia | | exact La |].
    - intros y Y1 Y2. apply Hnn'; unfold pa, pb in *; lia.
    - intros y Y1 Y2. destruct (Nat.lt_ge_cases y (F (S o))) as [K|K]; [apply Hfree0; lia|].
      apply Hfree1. unfold pa in Y2. lia. }
  assert (D pb = false) as Dpb.
  { apply (line_break_kept cfg f D pcode pb (B cc0) RF Lcode); [cbn [sym_code]; rewrite Wc; reflexivity | unfold pcode, pb; lia | | exact Lb |].
    - intros y Y1 Y2. apply Hnn'; unfold pcode, pa, pb in *; lia.
    - intros y Y1 Y2. apply Hfree1. unfold pcode, pb in *. lia. }
  assert (a_next_lb l (F (S o)) false = Some pa) as En1.
  { apply a_next_lb_first; [unfold pa; lia | exact La |].
    intros y Y1 Y2 Ny. destruct (Hnn' y Y1 ltac:(unfold pa, pb in *; lia) ltac:(lia)) as (d & Nd & Hd).
    rewrite Nd in Ny. inversion Ny. contradiction. }
  assert (a_next_lb l (S pa) false = Some pb) as En2.
  { apply a_next_lb_first; [unfold pa, pb; lia | exact Lb |].
    intros y Y1 Y2 Ny. destruct (Hnn' y ltac:(unfold pa in *; lia) Y2 ltac:(lia)) as (d & Nd & Hd).
    rewrite Nd in Ny. inversion Ny. contradiction. }
  (* the closing side *)
  destruct (close_wrap_pos t2 CW) as (yc & yd & yw & Y1 & Y2 & Y3 & Nc & Nd & Hmm & (cw & Ncw & Wcw)).
  set (pc := F (c - 1) + yc). set (pd := F (c - 1) + yd). set (pw := F (c - 1) + yw).
  assert (nth_error l pc = Some (B NL)) as Lpc by (apply (txt_sym_B doc (c - 1) t2 yc NL T2 Nc)).
  assert (nth_error l pd = Some (B NL)) as Lpd by (apply (txt_sym_B doc (c - 1) t2 yd NL T2 Nd)).
  assert (nth_error l pw = Some (B cw)) as Lpw by (apply (txt_sym_B doc (c - 1) t2 yw cw T2 Ncw)).
  assert (forall y, pc < y -> y < F c -> y <> pd -> exists d, nth_error l y = Some (B d) /\ d <> NL) as Hmm'.
  { intros y H1 H2 H3. destruct (Hmm (y - F (c - 1)) ltac:(unfold pc in H1; lia) ltac:(lia) ltac:(unfold pd in H3; lia))
      as (d & Nd' & Hd).
    exists d. split; [|exact Hd]. replace y with (F (c - 1) + (y - F (c - 1))) by (unfold pc in H1; lia).
    apply (txt_sym_B doc (c - 1) t2 _ d T2 Nd'). }
  assert (D pd = false) as Dpd.
  { apply (line_break_kept cfg f D pw pd (B cw) RF Lpw); [cbn [sym_code]; rewrite Wcw; reflexivity | unfold pw, pd; lia | | exact Lpd |].
    - intros y H1 H2. apply Hmm'; unfold pw, pc, pd in *; lia.
    - intros y H1 H2. apply Hfree2. unfold pw, pd in *. lia. }
  assert (a_prev_lb l (F c) false = Some pd) as Ep1.
  { apply a_prev_lb_last; [unfold pd; lia | exact Lcl | exact Lpd |].
    intros y H1 H2 Ny. destruct (Hmm' y ltac:(unfold pc, pd in *; lia) H2 ltac:(lia)) as (d & Nd' & Hd).
    rewrite Nd' in Ny. inversion Ny. contradiction. }
  assert (a_prev_lb l pd false = Some pc) as Ep2.
  { apply a_prev_lb_last; [unfold pc, pd; lia | unfold pd; lia | exact Lpc |].
    intros y H1 H2 Ny. destruct (Hmm' y H1 ltac:(unfold pd in *; lia) ltac:(lia)) as (d & Nd' & Hd).
    rewrite Nd' in Ny. inversion Ny. contradiction. }
  assert (pb < pc) as Lbc by (unfold pb, pc; lia).
  (* the single run *)
  assert (a_unwrap l (F o) (F (S o)) (F c) (F (S c)) = ((F o, pb), Some (S pc, F (S c)))) as ER.
  { unfold a_unwrap, a_ub_end, a_ub_start. rewrite En1, En2, Ep1, Ep2.
    destruct (Nat.ltb_spec pb pc) as [_|K]; [reflexivity | lia]. }
  rewrite ER.
  (* the last kept line break in front of the closing wrapper line *)
  destruct (max_true (fun y => a_is_nl l y && negb (D y)) pb (pc - pb) pc eq_refl)
    as (k' & K1 & K2 & Pk & Hlast).
  { exists pb. split; [lia|]. split; [lia|]. rewrite (a_is_nl_B l pb Lb), Dpb. reflexivity. }
  apply andb_true_iff in Pk. destruct Pk as [Pk1 Pk2]. apply a_is_nl_true in Pk1.
  apply negb_true_iff in Pk2.
  assert (forall y, k' < y -> y <= pc -> nth_error l y = Some (B NL) -> D y = true) as Hdel.
  { intros y H1 H2 Ny. pose proof (Hlast y H1 H2) as K. rewrite (a_is_nl_B l y Ny) in K.
    cbn [andb] in K. apply negb_false_iff in K. exact K. }
  (* no kept symbol other than a whitespace byte between it and that line *)
  assert (forall y z, k' < y -> y <= pc -> D y = false -> nth_error l y = Some z -> sym_ws z = true) as Hnone.
  { intros y z H1 H2 Dy Ny. destruct (sym_ws z) eqn:Wz; [reflexivity | exfalso].
    set (Q := fun y => negb (D y) && negb (match nth_error l y with Some z => sym_ws z | None => true end)).
    destruct (max_true Q (S k') (pc - S k') pc eq_refl) as (m & Mm1 & Mm2 & Qm & Hm).
    { exists y. split; [lia|]. split; [lia|]. unfold Q. rewrite Dy, Ny, Wz. reflexivity. }
    unfold Q in Qm. apply andb_true_iff in Qm. destruct Qm as [Qm1 Qm2].
    apply negb_true_iff in Qm1. apply negb_true_iff in Qm2.
    destruct (nth_error l m) as [zm|] eqn:Nm; [|discriminate Qm2].
    assert (forall y', m < y' -> y' <= pc -> forall z', nth_error l y' = Some z' ->
              D y' = true \/ sym_ws z' = true) as Hm'.
    { intros y' A1 A2 z' Ny'. pose proof (Hm y' A1 A2) as K. unfold Q in K. rewrite Ny' in K.
      destruct (D y'); [left; reflexivity | right]. cbn [negb andb] in K. apply negb_false_iff in K. exact K. }
    assert (m <> pc) as Nmp by (intros ->; rewrite Lpc in Nm; inversion Nm; subst zm; discriminate Qm2).
    destruct (sym_code zm) eqn:Cm.
    - (* a code symbol: the line break that ends its line would be kept *)
      destruct (min_true (fun y => a_is_nl l y && negb (del1u cfg f y)) pc (pc - S m) (S m) eq_refl ltac:(lia))
        as (p & P1 & P2 & Pp & Hp).
      { rewrite (a_is_nl_B l pc Lpc), (Hfree2 pc ltac:(unfold pc; lia)). reflexivity. }
      apply andb_true_iff in Pp. destruct Pp as [Pp1 Pp2]. apply a_is_nl_true in Pp1.
      apply negb_true_iff in Pp2.
      assert (D p = false) as Dp.
      { apply (HQ m p zm ltac:(lia) Nm Cm Qm1); [|exact Pp1 | exact Pp2].
        intros y' z' A1 A2 Ny'. destruct (del1u cfg f y') eqn:E1'; [left; reflexivity | right].
        pose proof (Hp y' ltac:(lia) A2) as K. rewrite E1' in K. cbn [negb] in K. rewrite andb_true_r in K.
        apply sym_ws_not_nl_blank; [|apply (a_is_nl_false l y' z' Ny' K)].
        destruct (Hm' y' A1 ltac:(lia) z' Ny') as [Dy'|W']; [|exact W'].
        apply (Hws y' z' Dy' E1' Ny'). }
      rewrite (Hdel p ltac:(lia) P2 Pp1) in Dp. discriminate Dp.
    - (* a start delimiter: the end delimiter of its tag comes later *)
      destruct zm as [d| |]; cbn [sym_code sym_ws] in Cm, Qm2.
      + rewrite Qm2 in Cm. discriminate Cm.
      + destruct (flat_DS_inv doc m Nm) as (it & b & Hit & Eit). fold F in Eit.
        destruct (tag_DE doc it b Hit) as [LDE' LtDE']. fold F l in LDE', LtDE'.
        assert (it < c) as I1.
        { destruct (Nat.lt_ge_cases it c) as [K|K]; [exact K|]. pose proof (HF c it K). unfold pc in *. lia. }
        assert (it <> c - 1) as I2 by (intros ->; congruence).
        pose proof (HF (S it) (c - 1) ltac:(lia)) as M2.
        assert (D (F (S it) - 1) = false) as Dde.
        { destruct Hpr as [Hir _]. pose proof (Hir it b Hit (F (S it) - 1)) as K. cbn [Nat.add] in K.
          fold doc F in K. rewrite K by lia. rewrite Eit. exact Qm1. }
        pose proof (Hm (F (S it) - 1) ltac:(lia) ltac:(unfold pc; lia)) as K. unfold Q in K.
        rewrite Dde, LDE' in K. discriminate K.
      + discriminate Cm. }
  (* the second run *)
  assert (a_ub_end (sdel_from 0 D l) (rank D (F (S o))) = Some (rank D pb)) as ER1.
  { unfold a_ub_end. rewrite (next_lb_sdel D l (F (S o)) pa En1 Dpa), <- (rank_S_kept D pa Dpa).
    apply (next_lb_sdel D l (S pa) pb En2 Dpb). }
  assert (a_ub_start (sdel_from 0 D l) (rank D (F c)) = Some (rank D k')) as ER2.
  { unfold a_ub_start. rewrite (prev_lb_sdel D l (F c) pd Ep1 Lcl Dpd).
    apply prev_lb_sdel_gen; [unfold pd, pc in *; lia | unfold pd; lia | exact Pk1 | exact Pk2 |].
    intros y H1 H2 Ny. destruct (Nat.le_gt_cases y pc) as [K|K]; [apply (Hdel y H1 K Ny)|].
    destruct (Hmm' y K ltac:(unfold pd in *; lia) ltac:(lia)) as (d & Nd' & Hd).
    rewrite Nd' in Ny. inversion Ny. contradiction. }
  assert (F o < pb) as Lob by (unfold pb; lia).
  assert (i <> pb) as Nib.
  { intros ->. rewrite Lb in Ni. inversion Ni; subst x. discriminate Wx. }
  assert (i <= k' \/ pc < i) as Hout.
  { destruct (Nat.le_gt_cases i k') as [K|K]; [left; exact K | right].
    destruct (Nat.le_gt_cases i pc) as [K'|K']; [|exact K'].
    rewrite (Hnone i x K K' Di Ni) in Wx. discriminate Wx. }
  unfold a_unwrap. rewrite ER1, ER2.
  destruct (Nat.eq_dec k' pb) as [Ek|Ek].
  - subst k'. rewrite Nat.ltb_irrefl, Nat.eqb_refl. rewrite (rdel_span_rank D (F o) (F (S c)) i Da Di).
    unfold rdel. cbn [fst snd]. rewrite rr_hasb_span, rr_hasb_parts.
    destruct (Nat.ltb_spec (F o) (F (S c))), (Nat.ltb_spec (F o) pb), (Nat.leb_spec (F o) i),
      (Nat.ltb_spec i (F (S c))), (Nat.ltb_spec i pb), (Nat.leb_spec (S pc) i);
      cbn [andb orb]; try reflexivity; lia.
  - assert (rank D pb < rank D k') as Lr by (apply rank_lt_kept; [exact Dpb | lia]).
    destruct (Nat.ltb_spec (rank D pb) (rank D k')) as [_|K]; [|lia].
    rewrite (rdel_parts_rank D (F o) pb k' (F (S c)) i Da Pk2 Di).
    unfold rdel. cbn [fst snd]. rewrite !rr_hasb_parts.
    destruct (Nat.ltb_spec (F o) pb), (Nat.leb_spec (F o) i),
      (Nat.ltb_spec i (F (S c))), (Nat.ltb_spec i pb), (Nat.leb_spec (S pc) i), (Nat.leb_spec (S k') i);
      cbn [andb orb]; try reflexivity; lia.
Qed.

(** ** A kept unwrap-block node with one text child *)

Lemma unwrap_one_rank cfg f D n t i :
  strict f -> run_facts cfg f D -> In n (ast_nodes 0 f) ->
  tdel cfg f (node_open n) = false ->
  node_close n = S (S (node_open n)) ->
  nth_error (doc_of f) (S (node_open n)) = Some (Txt t) ->
  D i = false ->
  rdel (a_unwrap (sdel_from 0 D (flat (doc_of f)))
          (rank D (fstart (doc_of f) (node_open n))) (rank D (fstart (doc_of f) (S (node_open n))))
          (rank D (fstart (doc_of f) (node_close n))) (rank D (fstart (doc_of f) (S (node_close n)))))
       (rank D i)
  = rdel (a_unwrap (flat (doc_of f))
            (fstart (doc_of f) (node_open n)) (fstart (doc_of f) (S (node_open n)))
            (fstart (doc_of f) (node_close n)) (fstart (doc_of f) (S (node_close n)))) i.
Proof.
  intros Hs RF Hn Hk Ec T1 Di.
  pose proof RF as (Hpr & Htag & Hsup & Hws & HQ & HFk).
  pose proof (node_tags f n Hn) as Kn. cbv zeta in Kn.
  destruct Kn as (Loc & So & Sc & (b1 & To) & (b2 & Tc)).
  set (doc := doc_of f) in *. set (F := fstart doc) in *. set (l := flat doc) in *.
  set (o := node_open n) in *. set (c := node_close n) in *.
  pose proof (fstart_mono doc) as HF. fold F in HF.
  pose proof (txt_fstart doc (S o) t T1) as E1. fold F in E1. rewrite <- Ec in E1.
  pose proof (fstart_le doc c) as Lcl. fold F l in Lcl.
  assert (D (F o) = false) as Da by (pose proof (Htag o b1 To) as K; rewrite Hk in K; exact K).
  assert (forall y, F o <= y < F (S c) -> del1u cfg f y = false) as Hfree.
  { intros y Hy. destruct (Nat.lt_ge_cases y (F (S o))) as [K1|K1].
    - apply (kept_tags_free cfg f n y Hs Hn Hk). left. fold doc F o. lia.
    - destruct (Nat.lt_ge_cases y (F c)) as [K2|K2].
      + apply (kept_text_free cfg f n (S o) t y Hs Hn Hk (or_introl eq_refl) T1). fold doc F o.
        rewrite <- Ec. lia.
      + apply (kept_tags_free cfg f n y Hs Hn Hk). right. fold doc F c. lia. }
  destruct (tag_DE doc c b2 Tc) as [LDE LtDE]. fold F l in LDE, LtDE.
  pose proof (sym_at_tag doc o b1 To) as LDS. cbn [aidx] in LDS. fold F l in LDS.
  (* every line break of the text is kept *)
  assert (forall y, F (S o) <= y -> y < F c -> nth_error l y = Some (B NL) -> D y = false) as Hkept.
  { intros y Y1 Y2 Ny. destruct (D y) eqn:Dy; [exfalso | reflexivity].
    destruct (HFk y Dy (Hfree y ltac:(lia)) Ny) as (w & Dw & Hlink).
    destruct (Nat.lt_ge_cases w (F o)) as [K1|K1].
    - destruct (Hlink (F o) DS ltac:(lia) LDS) as [K|K]; [|discriminate K].
      rewrite (Hfree (F o) ltac:(lia)) in K. discriminate K.
    - destruct (Nat.lt_ge_cases w (F (S c))) as [K2|K2]; [rewrite (Hfree w ltac:(lia)) in Dw; discriminate Dw|].
      destruct (Hlink (F (S c) - 1) DE ltac:(lia) LDE) as [K|K]; [|discriminate K].
      rewrite (Hfree (F (S c) - 1) ltac:(lia)) in K. discriminate K. }
  destruct (le_lt_dec (nlcount t) 2) as [C2|C3].
  - (* at most two line breaks: nothing to unwrap, before and after *)
    assert (forall x y z, F (S o) <= x -> x < y -> y < z -> z < F c ->
              nth_error l x = Some (B NL) -> nth_error l y = Some (B NL) -> nth_error l z = Some (B NL) -> False) as H3.
    { intros x y z H1 H2 H3 H4 N1 N2 N3. rewrite E1 in H4.
      pose proof (txt_sym_nl doc _ t x T1 ltac:(fold F; lia) ltac:(fold F; lia) N1) as X1.
      pose proof (txt_sym_nl doc _ t y T1 ltac:(fold F; lia) ltac:(fold F; lia) N2) as X2.
      pose proof (txt_sym_nl doc _ t z T1 ltac:(fold F; lia) ltac:(fold F; lia) N3) as X3.
      fold F in X1, X2, X3.
      assert (3 <= nlcount t) by (refine (nlcount_three t _ _ _ _ _ X1 X2 X3); lia). lia. }
    rewrite (a_unwrap_empty l (F o) (F (S o)) (F c) (F (S c)) H3).
    rewrite a_unwrap_empty; [unfold rdel; cbn [fst snd]; rewrite !Nat.ltb_irrefl; reflexivity|].
    intros x1 y1 z1 H1 H2 H3' H4 N1 N2 N3.
    destruct (nth_sdel_inv D l x1 _ N1) as (x & Dx & Rx & Nx).
    destruct (nth_sdel_inv D l y1 _ N2) as (y & Dy & Ry & Ny).
    destruct (nth_sdel_inv D l z1 _ N3) as (z & Dz & Rz & Nz). subst x1 y1 z1.
    apply rank_lt_inv in H2. apply rank_lt_inv in H3'. apply rank_lt_inv in H4.
    apply (H3 x y z); try assumption.
    destruct (Nat.le_gt_cases (F (S o)) x) as [K|K]; [exact K|].
    pose proof (rank_lt_kept D x (F (S o)) Dx K). lia.
  - (* at least three *)
    destruct (nl_three t C3) as (x1 & x2 & x3 & L1 & L2 & X1 & X2 & X3).
    destruct (txt_nl doc _ _ _ T1 X1) as [A1 _]. destruct (txt_nl doc _ _ _ T1 X2) as [A2 _].
    destruct (txt_nl doc _ _ _ T1 X3) as [A3 A3']. fold F in A1, A2, A3, A3'. fold l in A1, A2, A3.
    rewrite <- Ec in A3'.
    destruct (ub_end_le l (F (S o)) (F (S o) + x1) (F (S o) + x2) ltac:(lia) ltac:(lia) A1 A2)
      as (e & Ee & Le1 & Le2).
    destruct (ub_start_ge l (F c) (F (S o) + x2) (F (S o) + x3) ltac:(lia) ltac:(lia) Lcl A2 A3)
      as (s & Es & Ls1 & Ls2).
    pose proof Ee as Ee'. unfold a_ub_end in Ee'.
    destruct (a_next_lb l (F (S o)) false) as [p|] eqn:En1; [|discriminate Ee'].
    pose proof (a_next_lb_some l _ false p En1) as (P1 & _ & P3 & _).
    pose proof (a_next_lb_some l _ false e Ee') as (P4 & _ & P6 & _).
    pose proof Es as Es'. unfold a_ub_start in Es'.
    destruct (a_prev_lb l (F c) false) as [q|] eqn:Ep1; [|discriminate Es'].
    pose proof (a_prev_lb_some l false _ q Ep1) as (Q1 & Q3 & _).
    pose proof (a_prev_lb_some l false _ s Es') as (Q4 & Q6 & _).
    assert (D p = false) as Dp by (apply Hkept; [lia | lia | exact P3]).
    assert (D e = false) as De by (apply Hkept; [lia | lia | exact P6]).
    assert (D q = false) as Dq by (apply Hkept; [lia | lia | exact Q3]).
    assert (D s = false) as Ds by (apply Hkept; [lia | lia | exact Q6]).
    assert (a_ub_end (sdel_from 0 D l) (rank D (F (S o))) = Some (rank D e)) as ER1.
    { unfold a_ub_end. rewrite (next_lb_sdel D l (F (S o)) p En1 Dp), <- (rank_S_kept D p Dp).
      apply (next_lb_sdel D l (S p) e Ee' De). }
    assert (a_ub_start (sdel_from 0 D l) (rank D (F c)) = Some (rank D s)) as ER2.
    { unfold a_ub_start. rewrite (prev_lb_sdel D l (F c) q Ep1 Lcl Dq).
      apply (prev_lb_sdel D l q s Es' ltac:(lia) Ds). }
    unfold a_unwrap. rewrite ER1, ER2, Ee, Es.
    rewrite (rank_ltb_kept D e s De).
    destruct (Nat.ltb_spec e s) as [K|K].
    + apply (rdel_parts_rank D (F o) e s (F (S c)) i Da Ds Di).
    + destruct (Nat.eqb_spec s e) as [K'|K'].
      * subst s. rewrite Nat.eqb_refl. apply (rdel_span_rank D (F o) (F (S c)) i Da Di).
      * destruct (Nat.eqb_spec (rank D s) (rank D e)) as [K''|K''].
        -- exfalso. apply K'. apply (rank_inj_kept D s e Ds De K'').
        -- unfold rdel. cbn [fst snd]. rewrite !Nat.ltb_irrefl. reflexivity.
Qed.

(** ** A node whose opening tag the first run deletes *)

Lemma node_rr_mono cfg1 cfg2 doc n r : ready_le cfg1 cfg2 ->
  node_rr cfg1 doc n = Some r -> node_rr cfg2 doc n = Some r.
Proof.
  intros Hle. unfold node_rr, a_element_range.
  destruct (status cfg1 (el_of (node_b1 n))) as [[|]|] eqn:E1; try discriminate.
  rewrite (Hle _ E1). intros H. exact H.
Qed.

Lemma node_rr_span cfg f n r i : strict f -> In n (ast_nodes 0 f) ->
  node_rr cfg (doc_of f) n = Some r -> rr_hasb r i = true ->
  fstart (doc_of f) (node_open n) <= i < fstart (doc_of f) (S (node_close n)).
Proof.
  intros Hs Hn E Hi.
  pose proof (node_tags f n Hn) as Kn. cbv zeta in Kn. destruct Kn as (Loc & So & Sc & _ & _).
  pose proof (fstart_mono (doc_of f)) as HF.
  pose proof (node_rr_shape cfg (doc_of f) n r E) as Sh. cbv zeta in Sh.
  destruct Sh as [[-> L]|(e & s & -> & L1 & L2 & _ & _ & _)].
  - rewrite rr_hasb_span in Hi. apply andb_true_iff in Hi. destruct Hi as [H1 H2].
    apply Nat.leb_le in H1. apply Nat.ltb_lt in H2. lia.
  - pose proof (strict_parts cfg f n e (S s) _ Hs Hn E) as K. cbv zeta in K.
    destruct K as (_ & K1 & K2 & K3 & K4 & K5 & _).
    pose proof (HF (S (S (node_open n))) (S (node_close n)) ltac:(lia)).
    pose proof (HF (node_open n) (node_close n - 1) ltac:(lia)).
    rewrite rr_hasb_parts in Hi. apply orb_true_iff in Hi.
    destruct Hi as [Hi|Hi]; apply andb_true_iff in Hi; destruct Hi as [H1 H2];
      apply Nat.leb_le in H1; apply Nat.ltb_lt in H2; lia.
Qed.

Lemma unkept_node cfg1 cfg2 f D n i : strict f -> run_facts cfg1 f D -> ready_le cfg1 cfg2 ->
  In n (ast_nodes 0 f) -> tdel cfg1 f (node_open n) = true ->
  node_del cfg2 (doc_of f) n i = true -> D i = true.
Proof.
  intros Hs (_ & _ & Hsup & _) Hle Hn Hk Hd. apply Hsup. apply del1u_spec.
  unfold node_del in Hd. destruct (node_rr cfg2 (doc_of f) n) as [r|] eqn:Er; [|discriminate Hd].
  pose proof (node_rr_span cfg2 f n r i Hs Hn Er Hd) as Hspan.
  apply tdel_spec in Hk. destruct Hk as (m & rr' & Hm & Er' & Hmatch).
  pose proof (ast_nodes_range f 0 n Hn) as (_ & Rn & _).
  pose proof (ast_nodes_range f 0 m Hm) as (_ & Rm & _).
  pose proof (ast_nodes_laminar f 0 n m Hn Hm) as Lam. unfold laminar in Lam.
  pose proof (fstart_mono (doc_of f)) as HF.
  pose proof (node_rr_shape cfg1 (doc_of f) m rr' Er') as Sh. cbv zeta in Sh.
  destruct Sh as [[-> L]|(e & s & -> & L1 & L2 & _ & _ & _)]; cbn [snd] in Hmatch.
  - exists m, ((fstart (doc_of f) (node_open m), fstart (doc_of f) (S (node_close m))), None).
    split; [exact Hm|]. split; [exact Er'|]. unfold rr_ranges. cbn [fst snd]. apply in_ranges_single.
    unfold Ranges.in_range. cbn [fst snd].
    pose proof (HF (node_open m) (node_open n) ltac:(lia)).
    pose proof (HF (S (node_close n)) (S (node_close m)) ltac:(lia)). lia.
  - assert (node_open n = node_open m /\ node_close n = node_close m) as [Eo Ec] by lia.
    pose proof (ast_nodes_at f 0 n Hn) as An. pose proof (ast_nodes_at f 0 m Hm) as Am.
    destruct n as [[[b1 b2] o] c]. destruct m as [[[b1' b2'] o'] c'].
    cbn [node_open node_close] in *. subst o' c'.
    destruct An as (i1 & j1 & -> & -> & _ & Hi1 & _). destruct Am as (i2 & j2 & Ei & Ej & _ & Hi2 & _).
    cbn [Nat.add] in *. subst i2. rewrite Hi1 in Hi2. inversion Hi2; subst b1'.
    assert (node_rr cfg1 (doc_of f) (b1, b2, i1, j1) = Some (fstart (doc_of f) i1, e, Some (S s, fstart (doc_of f) (S j1)))) as Er1
      by exact Er'.
    rewrite (node_rr_mono cfg1 cfg2 _ _ _ Hle Er1) in Er. inversion Er; subst r.
    exists (b1, b2, i1, j1), (fstart (doc_of f) i1, e, Some (S s, fstart (doc_of f) (S j1))).
    split; [exact Hn|]. split; [exact Er1|]. apply in_rangesb_spec. exact Hd.
Qed.

(** ** One node, before and after the first run *)

Lemma node_step cfg1 cfg2 f D n i x : strict2 f -> run_facts cfg1 f D -> ready_le cfg1 cfg2 ->
  In n (ast_nodes 0 f) -> D i = false ->
  nth_error (flat (doc_of f)) i = Some x -> sym_ws x = false ->
  keptq D (posq (doc_of f) n) &&
  q_del cfg2 (sdel_from 0 D (flat (doc_of f))) (rmap D (posq (doc_of f) n)) (rank D i)
  = q_del cfg2 (flat (doc_of f)) (posq (doc_of f) n) i.
Proof.
  intros Hs2 RF Hle Hn Di Ni Wx. pose proof (strict2_strict f Hs2) as Hs.
  pose proof RF as (_ & Htag & _).
  pose proof (node_tags f n Hn) as Kn. cbv zeta in Kn. destruct Kn as (_ & _ & _ & (b1 & To) & _).
  pose proof (Htag _ b1 To) as Ht.
  unfold posq. cbn [keptq rmap].
  destruct (D (fstart (doc_of f) (node_open n))) eqn:Da; cbn [negb andb].
  - symmetry. destruct (q_del cfg2 (flat (doc_of f)) _ i) eqn:E; [exfalso | reflexivity].
    assert (node_del cfg2 (doc_of f) n i = true) as K.
    { unfold node_del. rewrite node_rr_q. exact E. }
    rewrite (unkept_node cfg1 cfg2 f D n i Hs RF Hle Hn ltac:(congruence) K) in Di. discriminate Di.
  - assert (tdel cfg1 f (node_open n) = false) as Hk by congruence.
    rewrite !q_del_rdel. destruct (status cfg2 (el_of (node_b1 n))) as [[|]|]; try reflexivity.
    destruct (is_unwrap (node_b1 n)) eqn:U.
    + destruct (strict2_wrap f n Hs2 Hn U) as [(t & Ec & Tt)|(t1 & t2 & Lc & T1 & T2 & OW & CW)].
      * apply (unwrap_one_rank cfg1 f D n t i Hs RF Hn Hk Ec Tt Di).
      * apply (unwrap_two_rank cfg1 f D n t1 t2 i x Hs RF Hn Hk Lc T1 T2 OW CW Di Ni Wx).
    + apply (rdel_span_rank D _ _ i Da Di).
Qed.

(** ** The theorem *)

Lemma masked_flat D f : pair_respecting D f ->
  flat (doc_of (ast_norm (ast_mask D 0 f))) = sdel_from 0 D (flat (doc_of f)).
Proof.
  intros H. rewrite ast_norm_doc, flat_norm, (ast_mask_doc D f H).
  symmetry. apply doc_mask_flat. exact (proj1 H).
Qed.

Lemma del1u_mono cfg1 cfg2 f i : ready_le cfg1 cfg2 -> del1u cfg1 f i = true -> del1u cfg2 f i = true.
Proof.
  intros Hle H. apply del1u_spec in H. destruct H as (n & rr & Hn & Er & Hin).
  apply del1u_spec. exists n, rr. split; [exact Hn|]. split; [|exact Hin].
  apply (node_rr_mono cfg1 cfg2 _ _ _ Hle Er).
Qed.

(** The first run, as a tree: the output is the rendering of the masked and normalised tree [f1]
    (mask [D] over the symbols of [f]); with a configuration [cfg2] under which everything ready
    under [cfg1] is ready, a symbol of [f] that is not a whitespace byte is deleted by the first
    run or by the marker stage of the second run on [f1] if and only if the marker stage of the
    single run on [f] deletes it. *)
Theorem clean_run_then : forall cfg1 cfg2 ds de f out1,
  good_delims ds de -> de_nb de -> good_doc ds de (doc_of f) -> bodies_ok (doc_of f) ->
  Forall ast_ok f -> strict2 f -> ready_le cfg1 cfg2 ->
  clean cfg1 ds de (render ds de (doc_of f)) = Ok out1 ->
  exists D f1, out1 = render ds de (doc_of f1) /\ Forall ast_ok f1 /\
    good_doc ds de (doc_of f1) /\ bodies_ok (doc_of f1) /\ settled cfg1 f1 /\
    flat (doc_of f1) = sdel_from 0 D (flat (doc_of f)) /\
    (forall p, In p (ast_pairs f1) -> In p (ast_pairs f)) /\
    (forall i x, nth_error (flat (doc_of f)) i = Some x -> sym_ws x = false ->
       D i || del1u cfg2 f1 (rank D i) = del1u cfg2 f i).
Proof.
  intros cfg1 cfg2 ds de f out1 Hgd Hnb Hdoc Hbod Hok Hs2 Hle H1.
  pose proof (strict2_strict f Hs2) as Hs.
  destruct (clean_run_mask2 cfg1 ds de f Hgd Hnb Hdoc Hbod Hok Hs)
    as (D & Hpr & Hwf & Htag & Ecl & Hsup & Hws & HQ & HFk).
  assert (run_facts cfg1 f D) as RF by (unfold run_facts; auto 10).
  rewrite Ecl in H1. inversion H1 as [Eout]. clear H1.
  set (f1 := ast_norm (ast_mask D 0 f)).
  destruct (masked_good ds de f D Hpr Hdoc Hbod Hwf) as [Hg1 Hb1]. fold f1 in Hg1, Hb1.
  exists D, f1. split; [apply masked_rendering; exact Hpr|]. split; [apply masked_ok; exact Hok|].
  split; [exact Hg1|]. split; [exact Hb1|]. split; [|split; [apply masked_flat; exact Hpr|split]].
  { apply settled_masked. intros n Hn Hd.
    pose proof (node_tags f n Hn) as K. cbv zeta in K. destruct K as (_ & _ & _ & (b1 & Ho) & _).
    rewrite (Htag _ b1 Ho) in Hd.
    apply (strict_none cfg1 f n Hs Hn). apply (tdel_open_kept cfg1 f n Hn Hd). }
  { intros p Hin. rewrite <- (nodes_pairs f1 0) in Hin. unfold f1 in Hin.
    rewrite masked_nodes in Hin. apply in_map_iff in Hin. destruct Hin as (n & <- & Hn).
    apply filter_In in Hn. destruct Hn as [Hn _].
    rewrite <- (nodes_pairs f 0). apply in_map. exact Hn. }
  intros i x Ni Wx.
  destruct (D i) eqn:Di; cbn [orb].
  - symmetry. apply (del1u_mono cfg1 cfg2 f i Hle).
    destruct (del1u cfg1 f i) eqn:E1; [reflexivity|].
    rewrite (Hws i x Di E1 Ni) in Wx. discriminate Wx.
  - rewrite !del1u_q. unfold f1. rewrite (masked_flat D f Hpr), (masked_posq D f Hpr).
    rewrite !existsb_map, existsb_filter, existsb_map.
    apply existsb_ext_in. intros n Hn.
    apply (node_step cfg1 cfg2 f D n i x Hs2 RF Hle Hn Di Ni Wx).
Qed.

(** C19, second half, for strict forests with unwrap-block elements. *)
Theorem clean_composes_strict : forall cfg1 cfg2 ds de f out1 out12 out2,
  good_delims ds de -> de_nb de -> good_doc ds de (doc_of f) -> bodies_ok (doc_of f) ->
  Forall ast_ok f -> strict2 f ->
  (forall el, status cfg1 el = Some true -> status cfg2 el = Some true) ->
  clean cfg1 ds de (render ds de (doc_of f)) = Ok out1 ->
  clean cfg2 ds de out1 = Ok out12 ->
  clean cfg2 ds de (render ds de (doc_of f)) = Ok out2 ->
  nonws out12 = nonws out2.
Proof.
  intros cfg1 cfg2 ds de f out1 out12 out2 Hgd Hnb Hdoc Hbod Hok Hs2 Hle H1 H12 H2.
  destruct (clean_run_then cfg1 cfg2 ds de f out1 Hgd Hnb Hdoc Hbod Hok Hs2 Hle H1)
    as (D & f1 & -> & Hok1 & Hg1 & Hb1 & _ & Efl & _ & E).
  rewrite (clean_nonws_del1u cfg2 ds de f1 out12 Hgd Hnb Hg1 Hb1 Hok1 H12).
  rewrite (clean_nonws_del1u cfg2 ds de f out2 Hgd Hnb Hdoc Hbod Hok H2).
  rewrite Efl, sdel_compose. apply nonws_rs_sdel_agree. intros i x Ni Wx. cbn [Nat.add].
  apply (E i x Ni Wx).
Qed.

(** No tag is stranded, positionally: a tag of [f] is deleted by the first run or by the marker
    stage of the second run if and only if the marker stage of the single run deletes it (the
    formatter never deletes a tag); and a node whose opening tag the single run keeps is not
    ready under [cfg2], or is an unwrap-block with one text child with at most two line breaks. *)
Theorem clean_steps_tags_strict : forall cfg1 cfg2 ds de f out1,
  good_delims ds de -> de_nb de -> good_doc ds de (doc_of f) -> bodies_ok (doc_of f) ->
  Forall ast_ok f -> strict2 f ->
  (forall el, status cfg1 el = Some true -> status cfg2 el = Some true) ->
  clean cfg1 ds de (render ds de (doc_of f)) = Ok out1 ->
  exists D f1, out1 = render ds de (doc_of f1) /\ Forall ast_ok f1 /\
    flat (doc_of f1) = sdel_from 0 D (flat (doc_of f)) /\
    (forall p, In p (ast_pairs f1) -> In p (ast_pairs f)) /\
    (forall it b, nth_error (doc_of f) it = Some (Tag b) ->
       D (fstart (doc_of f) it) || del1u cfg2 f1 (rank D (fstart (doc_of f) it)) = tdel cfg2 f it) /\
    (forall n, In n (ast_nodes 0 f) -> tdel cfg2 f (node_open n) = false ->
       settled_node cfg2 (doc_of f) n).
Proof.
  intros cfg1 cfg2 ds de f out1 Hgd Hnb Hdoc Hbod Hok Hs2 Hle H1.
  pose proof (strict2_strict f Hs2) as Hs.
  destruct (clean_run_then cfg1 cfg2 ds de f out1 Hgd Hnb Hdoc Hbod Hok Hs2 Hle H1)
    as (D & f1 & E1 & Hok1 & _ & _ & _ & Efl & Hp & E).
  exists D, f1. split; [exact E1|]. split; [exact Hok1|]. split; [exact Efl|]. split; [exact Hp|]. split.
  - intros it b Hit. pose proof (sym_at_tag (doc_of f) it b Hit) as LDS. cbn [aidx] in LDS.
    rewrite (E _ DS LDS eq_refl).
    apply (del1u_tag cfg2 f it b _ Hs Hit (tag_start_in (doc_of f) it b Hit)).
  - intros n Hn Hk. apply (strict_none cfg2 f n Hs Hn). apply (tdel_open_kept cfg2 f n Hn Hk).
Qed.

(** Nothing is stranded, as a statement about trees: the step-by-step output is the rendering of a
    well-formed forest that is settled under [cfg2], all of whose elements are elements of [f],
    and it is a fixed point of [cfg2] -- PROVIDED the tree of the first output is again in the
    domain [strict] (the premise [Hgap]; it is the one thing not proved here: the masks of a run,
    characterised by [run_facts], keep the wrapper lines of the kept unwrap-block nodes, see
    [unwrap_two_rank], but that the normalised masked TREE has them in its first and last text
    child is not derived). *)
Theorem clean_steps_not_stranded_if : forall cfg1 cfg2 ds de f out1 out12,
  good_delims ds de -> de_nb de -> good_doc ds de (doc_of f) -> bodies_ok (doc_of f) ->
  Forall ast_ok f -> strict2 f ->
  (forall D, run_facts cfg1 f D -> strict (ast_norm (ast_mask D 0 f))) ->
  clean cfg1 ds de (render ds de (doc_of f)) = Ok out1 ->
  clean cfg2 ds de out1 = Ok out12 ->
  (exists f12, out12 = render ds de (doc_of f12) /\ Forall ast_ok f12 /\ settled cfg2 f12 /\
     forall p, In p (ast_pairs f12) -> In p (ast_pairs f)) /\
  clean cfg2 ds de out12 = Ok out12.
Proof.
  intros cfg1 cfg2 ds de f out1 out12 Hgd Hnb Hdoc Hbod Hok Hs2 Hgap H1 H12.
  pose proof (strict2_strict f Hs2) as Hs.
  destruct (clean_run_mask2 cfg1 ds de f Hgd Hnb Hdoc Hbod Hok Hs)
    as (D & Hpr & Hwf & Htag & Ecl & Hsup & Hws & HQ & HFk).
  assert (run_facts cfg1 f D) as RF by (unfold run_facts; auto 10).
  rewrite Ecl in H1. inversion H1 as [Eout]. clear H1.
  set (f1 := ast_norm (ast_mask D 0 f)) in *.
  destruct (masked_good ds de f D Hpr Hdoc Hbod Hwf) as [Hg1 Hb1]. fold f1 in Hg1, Hb1.
  assert (rs ds de (sdel_from 0 D (flat (doc_of f))) = render ds de (doc_of f1)) as E1
    by (apply masked_rendering; exact Hpr).
  rewrite <- Eout, E1 in H12.
  pose proof (masked_ok D f Hok) as Hok1. fold f1 in Hok1.
  pose proof (Hgap D RF) as Hs1. fold f1 in Hs1.
  destruct (clean_output_ast_strict cfg2 ds de f1 out12 Hgd Hnb Hg1 Hb1 Hok1 Hs1 H12)
    as (f12 & E12 & Hok12 & Hg12 & Hb12 & Hset & Hnodes).
  split.
  - exists f12. split; [exact E12|]. split; [exact Hok12|]. split; [exact Hset|].
    intros p Hin. rewrite <- (nodes_pairs f12 0), Hnodes in Hin.
    apply in_map_iff in Hin. destruct Hin as (n & <- & Hn). apply filter_In in Hn. destruct Hn as [Hn _].
    assert (In (node_bodies n) (ast_pairs f1)) as Hp1 by (rewrite <- (nodes_pairs f1 0); apply in_map; exact Hn).
    rewrite <- (nodes_pairs f1 0) in Hp1. unfold f1 in Hp1. rewrite masked_nodes in Hp1.
    apply in_map_iff in Hp1. destruct Hp1 as (m & <- & Hm). apply filter_In in Hm. destruct Hm as [Hm _].
    rewrite <- (nodes_pairs f 0). apply in_map. exact Hm.
  - subst out12. apply clean_settled; assumption.
Qed.

(** Later times, growing target sets. *)
Corollary clean_composes_strict_time : forall cfg now2 ds de f out1 out12 out2,
  good_delims ds de -> de_nb de -> good_doc ds de (doc_of f) -> bodies_ok (doc_of f) ->
  Forall ast_ok f -> strict2 f -> (now cfg <= now2)%Z ->
  clean cfg ds de (render ds de (doc_of f)) = Ok out1 ->
  clean (with_now cfg now2) ds de out1 = Ok out12 ->
  clean (with_now cfg now2) ds de (render ds de (doc_of f)) = Ok out2 ->
  nonws out12 = nonws out2.
Proof.
  intros cfg now2 ds de f out1 out12 out2 Hgd Hnb Hdoc Hbod Hok Hs Hle H1 H12 H2.
  apply (clean_composes_strict cfg (with_now cfg now2) ds de f out1 out12 out2); try assumption.
  intros el. apply C05Proofs.status_monotone. exact Hle.
Qed.

Corollary clean_composes_strict_time_targets : forall cfg now2 t2 ds de f out1 out12 out2,
  good_delims ds de -> de_nb de -> good_doc ds de (doc_of f) -> bodies_ok (doc_of f) ->
  Forall ast_ok f -> strict2 f -> (now cfg <= now2)%Z -> (forall v, In v (targets cfg) -> In v t2) ->
  clean cfg ds de (render ds de (doc_of f)) = Ok out1 ->
  clean (with_now (with_targets cfg t2) now2) ds de out1 = Ok out12 ->
  clean (with_now (with_targets cfg t2) now2) ds de (render ds de (doc_of f)) = Ok out2 ->
  nonws out12 = nonws out2.
Proof.
  intros cfg now2 t2 ds de f out1 out12 out2 Hgd Hnb Hdoc Hbod Hok Hs Hle Ht H1 H12 H2.
  apply (clean_composes_strict cfg (with_now (with_targets cfg t2) now2) ds de f out1 out12 out2);
    try assumption.
  intros el. apply status_grows; try reflexivity; [exact Hle | exact Ht].
Qed.

(* ------------------------------------------------------------------------- *)
(** * Part I: a decision procedure for [strict2], an instance, and a counterexample *)

Fixpoint split_nl (t : str) : option (str * str) :=
  match t with
  | [] => None
  | c :: t' =>
    if beq c NL then Some ([], t')
    else match split_nl t' with Some (a, b) => Some (c :: a, b) | None => None end
  end.

Lemma split_nl_spec : forall t a b, split_nl t = Some (a, b) -> t = a ++ NL :: b /\ ~ In NL a.
Proof.
  induction t as [|c t IH]; intros a b H; [discriminate H|]. cbn [split_nl] in H.
  destruct (beq c NL) eqn:E.
  - apply beq_eq in E. subst c. inversion H; subst a b. split; [reflexivity | intros []].
  - destruct (split_nl t) as [[a' b']|]; [|discriminate H]. inversion H; subst a b.
    destruct (IH a' b' eq_refl) as [-> Hn]. split; [reflexivity|].
    intros [Hc|Hin]; [|exact (Hn Hin)]. subst c. discriminate E.
Qed.

Definition has_codeb (w : str) : bool := existsb (fun c => negb (is_ws c)) w.

Lemma has_codeb_sound w : has_codeb w = true -> has_code w.
Proof.
  intros H. apply existsb_exists in H. destruct H as (c & Hin & Hc). apply negb_true_iff in Hc.
  exists c. split; assumption.
Qed.

Definition open_wrapb (t : str) : bool :=
  match split_nl t with
  | Some (_, u) => match split_nl u with Some (w1, _) => has_codeb w1 | None => false end
  | None => false
  end.

Lemma open_wrapb_sound t : open_wrapb t = true -> open_wrap t.
Proof.
  unfold open_wrapb. destruct (split_nl t) as [[r1 u]|] eqn:E1; [|discriminate].
  destruct (split_nl u) as [[w1 rest]|] eqn:E2; [|discriminate]. intros H.
  destruct (split_nl_spec t r1 u E1) as [-> N1]. destruct (split_nl_spec u w1 rest E2) as [-> N2].
  exists r1, w1, rest. split; [reflexivity|]. split; [exact N1|]. split; [exact N2|].
  apply has_codeb_sound. exact H.
Qed.

Definition close_wrapb (t : str) : bool := open_wrapb (rev t).

Lemma has_code_rev w : has_code (rev w) -> has_code w.
Proof. intros (c & Hin & Hc). exists c. split; [apply in_rev; exact Hin | exact Hc]. Qed.

Lemma close_wrapb_sound t : close_wrapb t = true -> close_wrap t.
Proof.
  intros H. apply open_wrapb_sound in H. destruct H as (r & w & rest & E & N1 & N2 & Hc).
  exists (rev rest), (rev w), (rev r).
  split.
  - rewrite <- (rev_involutive t), E. rewrite rev_app_distr. cbn [rev]. rewrite rev_app_distr. cbn [rev].
    rewrite <- !app_assoc. reflexivity.
  - split; [intros Hin; apply N2; apply in_rev; exact Hin|].
    split; [intros Hin; apply N1; apply in_rev; exact Hin|].
    apply has_code_rev. rewrite rev_involutive. exact Hc.
Qed.

Definition wrapper_kids2b (kids : list ast) : bool :=
  match kids with
  | [AT _] => true
  | AT t1 :: rest =>
    open_wrapb t1 && match last rest (AC []) with AT t2 => close_wrapb t2 | _ => false end
  | _ => false
  end.

Fixpoint strict21b (a : ast) : bool :=
  match a with
  | AT _ => true
  | AC b => negb (mem_b NL b)
  | AE b1 b2 kids =>
    negb (mem_b NL b1) && negb (mem_b NL b2) &&
    (if is_unwrap b1 then wrapper_kids2b kids else true) && forallb strict21b kids
  end.

Lemma wrapper_kids2b_sound kids : wrapper_kids2b kids = true -> wrapper_kids2 kids.
Proof.
  unfold wrapper_kids2b, wrapper_kids2. destruct kids as [|[t1|b|b1 b2 k] rest]; try discriminate.
  destruct rest as [|y r]; [intros _; left; exists t1; reflexivity|].
  intros H. apply andb_true_iff in H. destruct H as [H1 H2].
  right. assert (y :: r <> []) as Ne by discriminate.
  rewrite (app_removelast_last (AC []) Ne). rewrite (app_removelast_last (AC []) Ne) in H2 at 1.
  rewrite last_last in H2.
  destruct (last (y :: r) (AC [])) as [t2|b|b1 b2 k]; try discriminate H2.
  exists t1, (removelast (y :: r)), t2. split; [reflexivity|].
  split; [apply open_wrapb_sound; exact H1 | apply close_wrapb_sound; exact H2].
Qed.

Lemma strict21b_sound a : strict21b a = true -> strict21 a.
Proof.
  induction a as [t | b | b1 b2 kids IH] using ast_ind'; intros H.
  - exact I.
  - cbn [strict21b] in H. apply negb_true_iff in H. apply mem_b_false. exact H.
  - cbn [strict21b] in H. apply andb_true_iff in H. destruct H as [H H4].
    apply andb_true_iff in H. destruct H as [H H3]. apply andb_true_iff in H. destruct H as [H1 H2].
    apply negb_true_iff in H1. apply negb_true_iff in H2.
    apply strict21_AE. split; [apply mem_b_false; exact H1|]. split; [apply mem_b_false; exact H2|].
    split.
    + intros U. rewrite U in H3. apply wrapper_kids2b_sound. exact H3.
    + unfold strict2. rewrite forallb_forall in H4. rewrite Forall_forall in IH.
      apply Forall_forall. intros x Hx. apply IH; [exact Hx | apply H4; exact Hx].
Qed.

Lemma strict2b_sound f : forallb strict21b f = true -> strict2 f.
Proof.
  intros H. rewrite forallb_forall in H. apply Forall_forall. intros a Ha.
  apply strict21b_sound. apply H. exact Ha.
Qed.

(** "tl to='2010-01-01 00:00:00' unwrap-block": ready only at the later time of [cc_cfg2]. *)
Definition b_tl_2010_ub : str :=
  b_tl_2010 ++ [32; 117; 110; 119; 114; 97; 112; 45; 98; 108; 111; 99; 107]%N.

(** With the configurations [cc_cfg1] (2001) and [cc_cfg2] (2011) of [Proofs.Compose]:

      a
      <!tl to='2010-01-01 00:00:00' unwrap-block>   (unwrap-block, ready only at the later time)
      {
        <!tl to='2000-01-01 00:00:00'>q<!/tl>       (ready at both times)
        <!tl to='2030-01-01 00:00:00'>k<!/tl>       (pending at both times)
        r
      }
      <!/tl>
      c                                                                                    *)
Definition cu_ast : list ast :=
  [ AT [97; 10]%N;
    AE b_tl_2010_ub b_tl_close
       [ AT [10; 123; 10; 32; 32]%N;
         AE b_tl_ready b_tl_close [ AT [113%N] ];
         AT [10; 32; 32]%N;
         AE b_tl_pending b_tl_close [ AT [107%N] ];
         AT [10; 32; 32; 114; 10; 125; 10]%N ];
    AT [10; 99]%N ].
Definition cu_src : str := render id_ds id_de (doc_of cu_ast).

(** After the first run: the line of the inner ready element is gone. *)
Definition cu_out1 : str :=
  ([97; 10; 60; 33] ++ b_tl_2010_ub ++ [62; 10; 123; 10; 32; 32; 60; 33] ++ b_tl_pending ++
   [62; 107; 60; 33; 47; 116; 108; 62; 10; 32; 32; 114; 10; 125; 10; 60; 33; 47; 116; 108; 62; 10; 99])%N.
(** After the second run: "a\n<!tl ..2030..>k<!/tl>\nr\nc". *)
Definition cu_out12 : str :=
  ([97; 10; 60; 33] ++ b_tl_pending ++ [62; 107; 60; 33; 47; 116; 108; 62; 10; 114; 10; 99])%N.
(** The single run at the later time leaves an empty line more: "a\n\n<!tl ..2030..>k<!/tl>\nr\nc". *)
Definition cu_out2 : str :=
  ([97; 10; 10; 60; 33] ++ b_tl_pending ++ [62; 107; 60; 33; 47; 116; 108; 62; 10; 114; 10; 99])%N.

Example cu_ok : Forall ast_ok cu_ast.
Proof.
  apply Forall_forall. intros a Ha. apply ast_okb_sound.
  assert (forallb ast_okb cu_ast = true) as H by (vm_compute; reflexivity).
  rewrite forallb_forall in H. apply H. exact Ha.
Qed.

Example cu_strict2 : strict2 cu_ast.
Proof. apply strict2b_sound. vm_compute. reflexivity. Qed.

(** The nodes: opening item, ready at the first time, ready at the second, unwrap-block. *)
Example cu_nodes :
  map (fun n : node => (node_open n, readyb cc_cfg1 n, readyb cc_cfg2 n, is_unwrap (node_b1 n)))
      (ast_nodes 0 cu_ast) =
  [ (1, false, true, true); (3, true, true, false); (7, false, false, false) ].
Proof. vm_compute. reflexivity. Qed.

Example cu_good : good_doc id_ds id_de (doc_of cu_ast) /\ bodies_ok (doc_of cu_ast).
Proof.
  split.
  - apply doc_checkb_ok; [cbn; repeat split; discriminate | vm_compute; reflexivity].
  - intros b Hin. cbn in Hin.
    repeat (destruct Hin as [E|Hin]; [try discriminate E; inversion E; subst; cbn; lia|]).
    destruct Hin.
Qed.

Example cu_first : clean cc_cfg1 id_ds id_de cu_src = Ok cu_out1.
Proof. vm_compute. reflexivity. Qed.

Example cu_second : clean cc_cfg2 id_ds id_de cu_out1 = Ok cu_out12.
Proof. vm_compute. reflexivity. Qed.

Example cu_direct : clean cc_cfg2 id_ds id_de cu_src = Ok cu_out2.
Proof. vm_compute. reflexivity. Qed.

Example cu_differ : cu_out12 <> cu_out2.
Proof. vm_compute. discriminate. Qed.

(** By the theorem the two outputs agree up to whitespace. *)
Example cu_composes : nonws cu_out12 = nonws cu_out2.
Proof.
  apply (clean_composes_strict cc_cfg1 cc_cfg2 id_ds id_de cu_ast cu_out1 cu_out12 cu_out2
           id_delims ux_de_nb (proj1 cu_good) (proj2 cu_good) cu_ok cu_strict2 cc_grows
           cu_first cu_second cu_direct).
Qed.

(** The condition on the wrapper lines cannot be dropped altogether.  In the domain [strict] of
    [Proofs.IdempotentUnwrap], with both wrapper lines empty:

      a
      <!tl to='2010-01-01 00:00:00' unwrap-block>
                                                     (empty wrapper line)
      <!tl to='2000-01-01 00:00:00'>q<!/tl>
                                                     (empty wrapper line)
      <!/tl>
      c

    the first run removes the inner element together with two of the four line breaks; the
    unwrap-block is left with two line breaks between its tags, which is not enough for the
    unwrap-block strategy: at the later time its two tags stay ("stranded"), while the single run
    at the later time removes them. *)
Definition cx_ast : list ast :=
  [ AT [97; 10]%N;
    AE b_tl_2010_ub b_tl_close
       [ AT [10; 10]%N; AE b_tl_ready b_tl_close [ AT [113%N] ]; AT [10; 10]%N ];
    AT [10; 99]%N ].
Definition cx_src : str := render id_ds id_de (doc_of cx_ast).
Definition cx_out1 : str :=
  ([97; 10; 60; 33] ++ b_tl_2010_ub ++ [62; 10; 10; 60; 33; 47; 116; 108; 62; 10; 99])%N.
Definition cx_out2 : str := [97; 10; 10; 99]%N.

Example cx_ok : Forall ast_ok cx_ast.
Proof.
  apply Forall_forall. intros a Ha. apply ast_okb_sound.
  assert (forallb ast_okb cx_ast = true) as H by (vm_compute; reflexivity).
  rewrite forallb_forall in H. apply H. exact Ha.
Qed.

Example cx_strict : strict cx_ast.
Proof. apply strictb_sound. vm_compute. reflexivity. Qed.

Example cx_not_strict2 : forallb strict21b cx_ast = false.
Proof. vm_compute. reflexivity. Qed.

Example cx_good : good_doc id_ds id_de (doc_of cx_ast) /\ bodies_ok (doc_of cx_ast).
Proof.
  split.
  - apply doc_checkb_ok; [cbn; repeat split; discriminate | vm_compute; reflexivity].
  - intros b Hin. cbn in Hin.
    repeat (destruct Hin as [E|Hin]; [try discriminate E; inversion E; subst; cbn; lia|]).
    destruct Hin.
Qed.

Example cx_first : clean cc_cfg1 id_ds id_de cx_src = Ok cx_out1.
Proof. vm_compute. reflexivity. Qed.

(** The second run changes nothing: the two tags of the unwrap-block stay. *)
Example cx_second : clean cc_cfg2 id_ds id_de cx_out1 = Ok cx_out1.
Proof. vm_compute. reflexivity. Qed.

Example cx_direct : clean cc_cfg2 id_ds id_de cx_src = Ok cx_out2.
Proof. vm_compute. reflexivity. Qed.

Example cx_not_composes : nonws cx_out1 <> nonws cx_out2.
Proof. vm_compute. discriminate. Qed.

Print Assumptions nl_after_code_kept.
Print Assumptions clean_rendered_pairs2.
Print Assumptions clean_nonws_markers.
Print Assumptions clean_nonws_del1u.
Print Assumptions strict2_strict.
Print Assumptions strict2_wrap.
Print Assumptions clean_run_mask2.
Print Assumptions masked_posq.
Print Assumptions kept_text_free.
Print Assumptions unwrap_two_rank.
Print Assumptions unwrap_one_rank.
Print Assumptions node_step.
Print Assumptions clean_run_then.
Print Assumptions clean_composes_strict.
Print Assumptions clean_steps_tags_strict.
Print Assumptions clean_steps_not_stranded_if.
Print Assumptions clean_composes_strict_time.
Print Assumptions clean_composes_strict_time_targets.
Print Assumptions strict2b_sound.
Print Assumptions cu_strict2.
Print Assumptions cu_first.
Print Assumptions cu_second.
Print Assumptions cu_direct.
Print Assumptions cu_composes.
Print Assumptions cx_strict.
Print Assumptions cx_first.
Print Assumptions cx_second.
Print Assumptions cx_direct.
Print Assumptions cx_not_composes.
