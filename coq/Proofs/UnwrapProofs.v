(** C11: the pause=false line-break finders are exactly "first line break at or after" /
    "last line break before", and the exact characterisation of the unwrap-block builder. *)
From Coq Require Import List NArith Arith Bool Lia PeanoNat.
Import ListNotations.
From Chiri Require Import Base.Bytes Base.Res Model.Tokenizer Model.Finders Model.Markers
  Spec.Lines Proofs.ResLemmas Proofs.BytesLemmas Proofs.Utf8 Proofs.FormatterProofs.

(* ------------------------------------------------------------------------- *)
(** * Line breaks and boundaries *)

(** A line break is never a continuation byte, so it always sits on a character boundary:
    the boundary test in [check_lb] never hides one. *)
Lemma NL_boundary s p : nth_error s p = Some NL -> is_boundary s p = true.
Proof.
  intros H. unfold is_boundary. destruct p as [|p]; [reflexivity|]. rewrite H. reflexivity.
Qed.

Lemma NL_check_lb s p : nth_error s p = Some NL -> check_lb s p = CFound.
Proof.
  intros H. unfold check_lb. rewrite (NL_boundary s p H), H. reflexivity.
Qed.

(* ------------------------------------------------------------------------- *)
(** * The specification predicates are functional *)

Lemma is_next_nl_unique s i p q : is_next_nl s i p -> is_next_nl s i q -> p = q.
Proof.
  intros (P1 & P2 & P3) (Q1 & Q2 & Q3).
  destruct (Nat.lt_trichotomy p q) as [L | [E | G]]; [|exact E|].
  - exfalso. apply (Q3 p P1 L). exact P2.
  - exfalso. apply (P3 q Q1 G). exact Q2.
Qed.

Lemma is_next_nl_not_none s i p : is_next_nl s i p -> no_nl_from s i -> False.
Proof. intros (P1 & P2 & _) H. apply (H p P1 P2). Qed.

Lemma is_prev_nl_unique s i p q : is_prev_nl s i p -> is_prev_nl s i q -> p = q.
Proof.
  intros (P1 & P2 & P3) (Q1 & Q2 & Q3).
  destruct (Nat.lt_trichotomy p q) as [L | [E | G]]; [|exact E|].
  - exfalso. apply (P3 q L Q1). exact Q2.
  - exfalso. apply (Q3 p G P1). exact P2.
Qed.

Lemma is_prev_nl_not_none s i p : is_prev_nl s i p -> no_nl_before s i -> False.
Proof. intros (P1 & P2 & _) H. apply (H p P1 P2). Qed.

Lemma is_next_nl_lt s i p : is_next_nl s i p -> p < length s.
Proof. intros (_ & P2 & _). apply nth_error_Some. congruence. Qed.

Lemma is_prev_nl_lt s i p : is_prev_nl s i p -> p < length s.
Proof. intros (_ & P2 & _). apply nth_error_Some. congruence. Qed.

(* ------------------------------------------------------------------------- *)
(** * The pause=false finders *)

Theorem find_next_lb_is_next_nl : forall s i, wf_utf8 s = true ->
  match find_next_lb s i false with
  | Some p => is_next_nl s i p
  | None => no_nl_from s i
  end.
Proof.
  intros s i _. destruct (find_next_lb s i false) as [p|] eqn:F.
  - pose proof (find_next_lb_some _ _ _ _ F) as (H1 & H2 & H3 & H4).
    split; [exact H1|]. split; [exact H3|].
    intros j Hj1 Hj2. apply (passed_not_NL s false).
    apply (find_next_lb_passed _ _ _ _ F); assumption.
  - unfold find_next_lb in F. intros j Hj.
    apply (find_next_lb_loop_none (S (length s - i)) s i); [lia | exact F | exact Hj].
Qed.

Theorem find_prev_lb_is_prev_nl : forall s i, wf_utf8 s = true -> i <= length s ->
  match find_prev_lb s i false with
  | Some p => is_prev_nl s i p
  | None => no_nl_before s i
  end.
Proof.
  intros s i _ Hi. destruct (find_prev_lb s i false) as [p|] eqn:F.
  - pose proof (find_prev_lb_spec _ _ _ _ F) as (H1 & H2 & H3 & H4 & H5).
    split; [exact H1|]. split; [exact H3|].
    intros j Hj1 Hj2. apply (passed_not_NL s false). apply H5; assumption.
  - intros j Hj. apply (find_prev_lb_none_gen s i Hi F j Hj).
Qed.

(** The converse, equational forms. *)
Lemma find_next_lb_eq s i p : wf_utf8 s = true -> is_next_nl s i p ->
  find_next_lb s i false = Some p.
Proof.
  intros Hs H. pose proof (find_next_lb_is_next_nl s i Hs) as K.
  destruct (find_next_lb s i false) as [q|].
  - f_equal. apply (is_next_nl_unique s i q p K H).
  - exfalso. apply (is_next_nl_not_none s i p H K).
Qed.

Lemma find_next_lb_eq_none s i : wf_utf8 s = true -> no_nl_from s i ->
  find_next_lb s i false = None.
Proof.
  intros Hs H. pose proof (find_next_lb_is_next_nl s i Hs) as K.
  destruct (find_next_lb s i false) as [q|]; [|reflexivity].
  exfalso. apply (is_next_nl_not_none s i q K H).
Qed.

Lemma find_prev_lb_eq s i p : wf_utf8 s = true -> i <= length s -> is_prev_nl s i p ->
  find_prev_lb s i false = Some p.
Proof.
  intros Hs Hi H. pose proof (find_prev_lb_is_prev_nl s i Hs Hi) as K.
  destruct (find_prev_lb s i false) as [q|].
  - f_equal. apply (is_prev_nl_unique s i q p K H).
  - exfalso. apply (is_prev_nl_not_none s i p H K).
Qed.

Lemma find_prev_lb_eq_none s i : wf_utf8 s = true -> i <= length s -> no_nl_before s i ->
  find_prev_lb s i false = None.
Proof.
  intros Hs Hi H. pose proof (find_prev_lb_is_prev_nl s i Hs Hi) as K.
  destruct (find_prev_lb s i false) as [q|]; [|reflexivity].
  exfalso. apply (is_prev_nl_not_none s i q K H).
Qed.

(* ------------------------------------------------------------------------- *)
(** * C11: the unwrap-block builder *)

Theorem unwrap_build_spec : forall s st et,
  wf_utf8 s = true -> tk_bstart et <= length s ->
  (* case 1: two line breaks after the opening tag and two before the closing tag exist *)
  (forall n1 n2 p1 p2,
     is_next_nl s (tk_bend st) n1 -> is_next_nl s (S n1) n2 ->
     is_prev_nl s (tk_bstart et) p1 -> is_prev_nl s p1 p2 ->
     unwrap_build s st et =
       if n2 <? p2 then ((tk_bstart st, n2), Some (S p2, tk_bend et))
       else if p2 =? n2 then ((tk_bstart st, tk_bend et), None)
       else ((tk_bstart st, tk_bstart st), None))
  /\
  (* case 2: otherwise the range is empty *)
  ((no_nl_from s (tk_bend st) \/ (exists n1, is_next_nl s (tk_bend st) n1 /\ no_nl_from s (S n1)) \/
    no_nl_before s (tk_bstart et) \/ (exists p1, is_prev_nl s (tk_bstart et) p1 /\ no_nl_before s p1)) ->
   unwrap_build s st et = ((tk_bstart st, tk_bstart st), None)).
Proof.
  intros s st et Hs Hle. split.
  - intros n1 n2 p1 p2 N1 N2 P1 P2.
    pose proof (is_prev_nl_lt s _ p1 P1) as Lp1.
    unfold unwrap_build.
    rewrite (find_next_lb_eq s (tk_bend st) n1 Hs N1).
    rewrite Nat.add_1_r.
    rewrite (find_next_lb_eq s (S n1) n2 Hs N2).
    rewrite (find_prev_lb_eq s (tk_bstart et) p1 Hs Hle P1).
    rewrite (find_prev_lb_eq s p1 p2 Hs (Nat.lt_le_incl _ _ Lp1) P2).
    rewrite Nat.add_1_r. reflexivity.
  - intros [H | [(n1 & N1 & H) | [H | (p1 & P1 & H)]]]; unfold unwrap_build.
    + rewrite (find_next_lb_eq_none s (tk_bend st) Hs H). reflexivity.
    + rewrite (find_next_lb_eq s (tk_bend st) n1 Hs N1). rewrite Nat.add_1_r.
      rewrite (find_next_lb_eq_none s (S n1) Hs H). reflexivity.
    + rewrite (find_prev_lb_eq_none s (tk_bstart et) Hs Hle H).
      match goal with |- match ?x with _ => _ end = _ => destruct x end; reflexivity.
    + pose proof (is_prev_nl_lt s _ p1 P1) as Lp1.
      rewrite (find_prev_lb_eq s (tk_bstart et) p1 Hs Hle P1).
      rewrite (find_prev_lb_eq_none s p1 Hs (Nat.lt_le_incl _ _ Lp1) H).
      match goal with |- match ?x with _ => _ end = _ => destruct x end; reflexivity.
Qed.

(* ------------------------------------------------------------------------- *)
Print Assumptions find_next_lb_is_next_nl.
Print Assumptions find_prev_lb_is_prev_nl.
Print Assumptions unwrap_build_spec.
