(** C05 (part 3): ASCII white space around and inside a rendered wall-clock time is skipped by the
    date-time parser. *)
From Coq Require Import List NArith ZArith Arith Bool Lia.
Import ListNotations.
From Chiri Require Import Base.Bytes Base.Res Model.TagParser Model.Chrono Model.Markers
     Spec.CivilTime Proofs.BytesLemmas Proofs.C06Proofs Proofs.C05Proofs Proofs.ChronoProofs.
Local Open Scope Z_scope.

Definition ascii_ws (b : byte) : bool := ((9 <=? b)%N && (b <=? 13)%N) || (b =? 32)%N.

(** * [trim_ws] *)

Lemma ws_len_ascii_ws b r : ascii_ws b = true -> ws_len (b :: r) = 1%nat.
Proof.
  intros H. unfold ascii_ws in H. unfold ws_len. rewrite H. reflexivity.
Qed.

(** The fuel of [trim_ws] is enough: any two fuels of at least the length agree. *)
Lemma trim_ws_fuel_enough f1 : forall f2 s, (length s <= f1)%nat -> (length s <= f2)%nat ->
  trim_ws_fuel f1 s = trim_ws_fuel f2 s.
Proof.
  induction f1 as [|f1 IH]; intros f2 s H1 H2.
  - destruct s as [|b r]; [|cbn [length] in H1; lia].
    destruct f2 as [|f2]; reflexivity.
  - destruct f2 as [|f2].
    + destruct s as [|b r]; [reflexivity | cbn [length] in H2; lia].
    + cbn [trim_ws_fuel]. destruct (ws_len s) as [|n] eqn:E; [reflexivity|].
      apply IH; rewrite skipn_length; lia.
Qed.

Lemma trim_ws_fuel_trim_ws f s : (length s <= f)%nat -> trim_ws_fuel f s = trim_ws s.
Proof. intros H. unfold trim_ws. apply trim_ws_fuel_enough; [exact H | apply Nat.le_refl]. Qed.

Lemma trim_ws_cons_ws b r : ascii_ws b = true -> trim_ws (b :: r) = trim_ws r.
Proof.
  intros H. unfold trim_ws. cbn [length trim_ws_fuel].
  rewrite (ws_len_ascii_ws b r H). cbn [skipn]. reflexivity.
Qed.

Lemma trim_ws_app_ws w r : forallb ascii_ws w = true -> trim_ws (w ++ r) = trim_ws r.
Proof.
  induction w as [|b w IH]; intros H; [reflexivity|].
  cbn [forallb] in H. apply andb_true_iff in H. destruct H as [Hb Hw].
  cbn [app]. rewrite (trim_ws_cons_ws b (w ++ r) Hb). apply IH. exact Hw.
Qed.

(** [numeric] starts with [trim_ws], so it skips an ASCII white-space prefix. *)
Lemma numeric_app_ws w r width signed : forallb ascii_ws w = true ->
  numeric (w ++ r) width signed = numeric r width signed.
Proof. intros H. unfold numeric. rewrite (trim_ws_app_ws w r H). reflexivity. Qed.

(** Leading ASCII white space in front of anything at all is skipped. *)
Lemma parse_datetime_app_ws w r : forallb ascii_ws w = true ->
  parse_datetime (w ++ r) = parse_datetime r.
Proof. intros H. unfold parse_datetime. rewrite (numeric_app_ws w r 4 true H). reflexivity. Qed.

Lemma finish_app_ws y m d h mi s w rest : forallb ascii_ws w = true ->
  finish y m d h mi s (w ++ rest) = finish y m d h mi s rest.
Proof. intros H. unfold finish. rewrite (trim_ws_app_ws w rest H). reflexivity. Qed.

(** * White space in front of the year and behind the seconds *)

Theorem padding_is_skipped : forall w1 w2 y m d h mi s off,
  forallb ascii_ws w1 = true -> forallb ascii_ws w2 = true ->
  0 <= y <= 9999 -> 0 <= m <= 99 -> 0 <= d <= 99 -> 0 <= h <= 99 -> 0 <= mi <= 99 -> 0 <= s <= 99 ->
  parse_datetime (w1 ++ render_to y m d h mi s ++ w2 ++ [SP] ++ off)
  = parse_datetime (render_to y m d h mi s ++ [SP] ++ off).
Proof.
  intros w1 w2 y m d h mi s off Hw1 Hw2 Hy Hm Hd Hh Hmi Hs.
  rewrite (parse_datetime_app_ws w1 _ Hw1).
  rewrite (parse_render_to y m d h mi s (w2 ++ [SP] ++ off) Hy Hm Hd Hh Hmi Hs).
  rewrite (parse_render_to y m d h mi s ([SP] ++ off) Hy Hm Hd Hh Hmi Hs).
  rewrite (finish_app_ws y m d h mi s w2 ([SP] ++ off) Hw2).
  reflexivity.
Qed.

Print Assumptions padding_is_skipped.

(** * White space between the date and the time *)

Lemma parse_date_then_ws y1 y2 y3 y4 m1 m2 d1 d2 w rest :
  is_digit y1 = true -> is_digit y2 = true -> is_digit y3 = true -> is_digit y4 = true ->
  is_digit m1 = true -> is_digit m2 = true -> is_digit d1 = true -> is_digit d2 = true ->
  forallb ascii_ws w = true ->
  parse_datetime (y1 :: y2 :: y3 :: y4 :: 45%N :: m1 :: m2 :: 45%N :: d1 :: d2 :: w ++ rest)
  = parse_datetime (y1 :: y2 :: y3 :: y4 :: 45%N :: m1 :: m2 :: 45%N :: d1 :: d2 :: rest).
Proof.
  intros Hy1 Hy2 Hy3 Hy4 Hm1 Hm2 Hd1 Hd2 Hw.
  unfold parse_datetime.
  rewrite !(numeric4_signed _ _ _ _ _ Hy1 Hy2 Hy3 Hy4). cbv beta iota.
  change (literal 45%N (45%N :: ?r)) with (Some r). cbv beta iota.
  rewrite !(numeric2 _ _ _ Hm1 Hm2). cbv beta iota.
  change (literal 45%N (45%N :: ?r)) with (Some r). cbv beta iota.
  rewrite !(numeric2 _ _ _ Hd1 Hd2). cbv beta iota.
  rewrite (trim_ws_app_ws w rest Hw).
  reflexivity.
Qed.

Theorem inner_padding_is_skipped : forall w y m d h mi s off,
  forallb ascii_ws w = true ->
  0 <= y <= 9999 -> 0 <= m <= 99 -> 0 <= d <= 99 -> 0 <= h <= 99 -> 0 <= mi <= 99 -> 0 <= s <= 99 ->
  parse_datetime (render4 y ++ [45%N] ++ render2 m ++ [45%N] ++ render2 d ++ w ++ [SP]
                  ++ render2 h ++ [58%N] ++ render2 mi ++ [58%N] ++ render2 s ++ [SP] ++ off)
  = parse_datetime (render_to y m d h mi s ++ [SP] ++ off).
Proof.
  intros w y m d h mi s off Hw Hy Hm Hd Hh Hmi Hs.
  destruct (render4_digits y Hy) as [Y1 [Y2 [Y3 [Y4 _]]]].
  destruct (render2_digits m Hm) as [M1 [M2 _]].
  destruct (render2_digits d Hd) as [D1 [D2 _]].
  unfold render_to, render4. unfold render2 at 1 2 6 7. cbn [app].
  apply (parse_date_then_ws _ _ _ _ _ _ _ _ w _ Y1 Y2 Y3 Y4 M1 M2 D1 D2 Hw).
Qed.

Print Assumptions inner_padding_is_skipped.

(** * Non-vacuity: " 2000-01-01 00:00:00\t " then a blank and "+00:00" *)

Example padded_value_parses :
  parse_datetime ([32%N] ++ render_to 2000 1 1 0 0 0 ++ [9%N; 32%N] ++ [SP] ++ [43; 48; 48; 58; 48; 48]%N)
  = Some 946684800.
Proof. vm_compute. reflexivity. Qed.

Example padded_value_parses_bytes :
  parse_datetime ([32; 50;48;48;48;45;48;49;45;48;49;32;48;48;58;48;48;58;48;48; 9; 32]%N
                  ++ [SP] ++ [43; 48; 48; 58; 48; 48]%N)
  = Some 946684800.
Proof. vm_compute. reflexivity. Qed.

(** The example is an instance of [padding_is_skipped] (its hypotheses hold of it). *)
Example padded_value_is_instance :
  forallb ascii_ws [32%N] = true /\ forallb ascii_ws [9%N; 32%N] = true /\
  [32%N] ++ render_to 2000 1 1 0 0 0 ++ [9%N; 32%N] ++ [SP] ++ [43; 48; 48; 58; 48; 48]%N
  = [32; 50;48;48;48;45;48;49;45;48;49;32;48;48;58;48;48;58;48;48; 9; 32]%N
    ++ [SP] ++ [43; 48; 48; 58; 48; 48]%N.
Proof. vm_compute. repeat split. Qed.

Print Assumptions padded_value_parses.
Print Assumptions padded_value_parses_bytes.
