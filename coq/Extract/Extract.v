(** Extraction of the executable model for the correspondence check.
    Only ExtrOcamlBasic's directives are used (bool, option, unit, list, prod, sumbool, sumor to
    the OCaml types; nat, N, positive, Z stay the extracted inductive types). *)
From Coq Require Import List NArith ZArith Arith Bool.
From Coq Require Extraction.
From Coq Require Import ExtrOcamlBasic.
From Chiri Require Import Base.Bytes Base.Res Model.Tokenizer Model.TagParser Model.TreeParser
     Model.Chrono Model.Finders Model.Markers Model.Format Model.Clean Model.ListRender Model.Cli Model.Current.

Extraction "../ocaml/model.ml"
  wf_utf8 tokenize parse_token parse_tree front_end
  time_is_removal marker_is_removal parse_datetime
  markers_of markers_all_of remove_markers get_removed_pos
  indent_remover empty_line_remover prev_line_break_remover next_line_break_remover
  format_block block_indent_remover format_ranges format clean
  find_next_lb find_prev_lb find_next_char
  list_pretty list_json list_all_pretty list_all_json build_item
  run run_text default_args parse_current.
