(* Driver of the extracted Coq model: reads the same case file as the Rust harness and prints the
   same canonical lines. *)
open Model

let rec nat_of_int n = if n <= 0 then O else S (nat_of_int (n - 1))
let int_of_nat n = let rec go acc = function O -> acc | S m -> go (acc + 1) m in go 0 n
let rec pos_of_int n =
  if n = 1 then XH else if n land 1 = 1 then XI (pos_of_int (n lsr 1)) else XO (pos_of_int (n lsr 1))
let n_of_int n = if n = 0 then N0 else Npos (pos_of_int n)
let rec int_of_pos = function XH -> 1 | XO p -> 2 * int_of_pos p | XI p -> 2 * int_of_pos p + 1
let int_of_n = function N0 -> 0 | Npos p -> int_of_pos p
let z_of_int n = if n = 0 then Z0 else if n > 0 then Zpos (pos_of_int n) else Zneg (pos_of_int (- n))

let unhex (s : string) : str =
  if s = "-" then []
  else List.init (String.length s / 2) (fun i -> n_of_int (int_of_string ("0x" ^ String.sub s (2 * i) 2)))

let hex (s : str) : string =
  match s with
  | [] -> "-"
  | _ ->
    let b = Buffer.create 64 in
    List.iter (fun c -> Buffer.add_string b (Printf.sprintf "%02x" (int_of_n c))) s;
    Buffer.contents b

let nonempty s = if s = "" then "." else s

let fmt_tokens ts =
  nonempty (String.concat "" (List.map (fun t ->
    Printf.sprintf "%c:%d:%d:%d:%d:%s;" (if t.tk_elem then 'E' else 'T')
      (int_of_nat t.tk_start) (int_of_nat t.tk_bstart) (int_of_nat t.tk_end) (int_of_nat t.tk_bend)
      (hex t.tk_value)) ts))

let fmt_element = function
  | None -> "N"
  | Some el ->
    "S" ^ hex el.el_name ^ String.concat "" (List.map (fun (n, v) ->
      match v with Some v -> ";" ^ hex n ^ "=" ^ hex v | None -> ";" ^ hex n) el.el_attrs)

let rec fmt_parts b parts =
  List.iter (function
    | PText t -> Buffer.add_string b (Printf.sprintf "T%d " (int_of_nat t.tk_bstart))
    | PElem (_, st, et, ch) ->
      Buffer.add_string b (Printf.sprintf "E%d-%d[ " (int_of_nat st.tk_bstart) (int_of_nat et.tk_bstart));
      fmt_parts b ch;
      Buffer.add_string b "] ") parts

let fmt_pair = function Some i -> string_of_int (int_of_nat i) | None -> "n"
let fmt_range (a, b) = Printf.sprintf "%d-%d" (int_of_nat a) (int_of_nat b)
let res_str f = function Ok x -> f x | Panic -> "PANIC"

let seam4 content pos =
  String.concat "," (List.map (fun f -> res_str fmt_range (f content pos))
    [indent_remover; empty_line_remover; prev_line_break_remover; next_line_break_remover])

let block content a b =
  res_str (fun rs -> "[" ^ String.concat "" (List.map (fun r -> fmt_range r ^ ",") rs) ^ "]")
    (block_indent_remover content a b)

(* the current instant: "<seconds>" or "<seconds>.<nanoseconds>"; the model works with whole seconds
   (a fraction below one second never changes the comparison with an instant on the second grid) *)
let now_of s = z_of_int (int_of_string (match String.index_opt s '.' with Some i -> String.sub s 0 i | None -> s))

let split_targets s = if s = "." then [] else List.map unhex (String.split_on_char ',' s)

let doc_case id f =
  let ds = unhex f.(0) and de = unhex f.(1) and src = unhex f.(2) in
  let cfg = { tl_tag = unhex f.(3); tl_offset = unhex f.(4); now = now_of f.(5);
              rm_tag = unhex f.(6); targets = split_targets f.(7) } in
  let toks = tokenize src ds de in
  Printf.printf "%s tok %s\n" id (res_str fmt_tokens toks);
  Printf.printf "%s tag %s\n" id (res_str (fun ts ->
    nonempty (String.concat "" (List.filter_map (fun t ->
      if t.tk_elem then
        Some (Printf.sprintf "%d:%s " (int_of_nat t.tk_bstart) (res_str fmt_element (parse_token ds de t)))
      else None) ts))) toks);
  let parsed = front_end ds de src in
  Printf.printf "%s tree %s\n" id (res_str (fun p ->
    let b = Buffer.create 64 in fmt_parts b p; nonempty (Buffer.contents b)) parsed);
  let markers = markers_of cfg ds de src in
  Printf.printf "%s markers %s\n" id (res_str (fun ms ->
    nonempty (String.concat "" (List.map (fun (r, p) -> fmt_range r ^ ":" ^ fmt_pair p ^ " ") ms))) markers);
  Printf.printf "%s markers_all %s\n" id (res_str (fun ms ->
    nonempty (String.concat "" (List.map (fun ((r, p), ready) ->
      fmt_range r ^ ":" ^ fmt_pair p ^ ":" ^ (if ready then "R" else "P") ^ " ") ms)))
    (markers_all_of cfg ds de src));
  let removed =
    match markers with
    | Panic -> Panic
    | Ok ms ->
      (match remove_markers src ms with
       | Panic -> Panic
       | Ok removed ->
         (match get_removed_pos ms with Panic -> Panic | Ok rpos -> Ok (removed, rpos))) in
  (match removed with
   | Panic -> Printf.printf "%s removed PANIC\n" id
   | Ok (removed, rpos) ->
     Printf.printf "%s removed %s %s\n" id (hex removed)
       (nonempty (String.concat "" (List.map (fun (p, pi) ->
          Printf.sprintf "%d:%s " (int_of_nat p) (fmt_pair pi)) rpos)));
     Printf.printf "%s seam %s\n" id
       (nonempty (String.concat "" (List.map (fun (p, _) ->
          Printf.sprintf "%d:%s " (int_of_nat p) (seam4 removed p)) rpos)));
     Printf.printf "%s block %s\n" id
       (nonempty (String.concat "" (List.filter_map (fun (p, pi) ->
          match pi with
          | None -> None
          | Some pi ->
            (match List.nth_opt rpos (int_of_nat pi) with
             | Some (ps, _) ->
               if int_of_nat p < int_of_nat ps then
                 Some (Printf.sprintf "%d-%d:%s " (int_of_nat p) (int_of_nat ps) (block removed p ps))
               else None
             | None -> Some (Printf.sprintf "%d:BADIDX " (int_of_nat p)))) rpos))));
  Printf.printf "%s clean %s\n" id (res_str hex (clean cfg ds de src));
  Printf.printf "%s list_json %s\n" id (res_str hex (list_json cfg ds de src));
  Printf.printf "%s list_pretty %s\n" id (res_str hex (list_pretty cfg ds de src));
  Printf.printf "%s lista_json %s\n" id (res_str hex (list_all_json cfg ds de src));
  Printf.printf "%s lista_pretty %s\n" id (res_str hex (list_all_pretty cfg ds de src))

let fmt_opt = function Some v -> string_of_int (int_of_nat v) | None -> "n"

let formatter_case id f =
  let content = unhex f.(0) in
  let pos = nat_of_int (int_of_string f.(1)) and pos2 = nat_of_int (int_of_string f.(2)) in
  Printf.printf "%s seam4 %s\n" id (seam4 content pos);
  Printf.printf "%s blk %s\n" id (block content pos pos2);
  Printf.printf "%s find %s\n" id (String.concat "," [
    fmt_opt (find_next_lb content pos true); fmt_opt (find_next_lb content pos false);
    fmt_opt (find_prev_lb content pos true); fmt_opt (find_prev_lb content pos false);
    fmt_opt (find_next_char content pos) ])

let attr_field name f =
  if f = "N" then []
  else if f = "V" then [ (name, None) ]
  else [ (name, Some (unhex (let r = String.sub f 1 (String.length f - 1) in if r = "" then "-" else r))) ]

let s_of_string s = List.init (String.length s) (fun i -> n_of_int (Char.code s.[i]))

let time_case id f =
  let el = { el_name = s_of_string "t"; el_attrs = attr_field (s_of_string "to") f.(0) } in
  Printf.printf "%s evalt %s\n" id
    (if time_is_removal (unhex f.(1)) (now_of f.(2)) el then "1" else "0")

let int_of_z = function Z0 -> 0 | Zpos p -> int_of_pos p | Zneg p -> - (int_of_pos p)

(* R <id> <hex text>: the text of --time-limited-current *)
let current_case id f =
  Printf.printf "%s cur %s\n" id
    (match parse_current (unhex f.(0)) with
     | Some (t, leap) -> Printf.sprintf "%d:%d" (int_of_z t) (if leap then 1 else 0)
     | None -> "none")

let marker_case id f =
  let el = { el_name = s_of_string "m"; el_attrs = attr_field (s_of_string "name") f.(0) } in
  Printf.printf "%s evalm %s\n" id (if marker_is_removal (split_targets f.(1)) el then "1" else "0")

let opt_hex d f = if f = "~" then d else unhex f

let cli_case id f =
  (* the current instant: the text of --time-limited-current read by the model of the relaxed RFC 3339 parse
     (older replay files have no such field: the instant itself) *)
  let text = if Array.length f > 14 then Some (unhex f.(14)) else None in
  (match text with
   | Some t when parse_current t = None ->
     failwith "the text of --time-limited-current does not parse in the model: the wall clock is not modelled"
   | _ -> ());
  let now = z_of_int (int_of_string f.(9)) in
  let d = default_args now in
  let src = unhex f.(13) in
  let s_in = s_of_string "IN" and s_cfg = s_of_string "CFG" and s_out = s_of_string "OUT" in
  let a = { d with
    a_filename = (if f.(2) = "F" then Some s_in else None);
    a_output = (match f.(3) with "W" -> Some s_out | "I" -> Some s_in | _ -> None);
    a_delimiter_start = opt_hex d.a_delimiter_start f.(4);
    a_delimiter_end = opt_hex d.a_delimiter_end f.(5);
    a_time_limited_tag_name = opt_hex d.a_time_limited_tag_name f.(6);
    a_time_limited_time_offset = opt_hex d.a_time_limited_time_offset f.(7);
    a_removal_marker_tag_name = opt_hex d.a_removal_marker_tag_name f.(10);
    a_removal_marker_target_name = split_targets f.(11);
    a_removal_marker_target_config = (if f.(12) = "~" then None else Some s_cfg);
    a_list = (f.(0) = "L" || f.(0) = "B");
    a_list_all = (f.(0) = "A" || f.(0) = "B");
    a_list_json = (f.(1) = "1") } in
  let fs name =
    if name = s_in then Some src
    else if name = s_cfg && f.(12) <> "~" then Some (unhex f.(12))
    else None in
  let stdin = if f.(2) = "S" then Some src else None in
  (* with a text: main.rs's own expression over the parse (the wall clock is never reached: the text parses) *)
  match (match text with Some t -> run_text a t Z0 stdin fs | None -> run a stdin fs) with
  | Crash -> Printf.printf "%s cli CRASH\n" id
  | Exit (code, out, written) ->
    Printf.printf "%s cli exit=%d stdout=%s file=%s\n" id (int_of_nat code) (hex out)
      (match written with
       | None -> "~"
       | Some (name, c) -> (if name = s_in then "IN" else "OUT") ^ ":" ^ hex c)

let () =
  let ic = open_in Sys.argv.(1) in
  (try
     while true do
       let line = input_line ic in
       let f = Array.of_list (String.split_on_char ' ' line) in
       if Array.length f >= 2 then begin
         let rest = Array.sub f 2 (Array.length f - 2) in
         match f.(0) with
         | "D" -> doc_case f.(1) rest
         | "F" -> formatter_case f.(1) rest
         | "T" -> time_case f.(1) rest
         | "M" -> marker_case f.(1) rest
         | "R" -> current_case f.(1) rest
         | "K" -> cli_case f.(1) rest
         | _ -> ()
       end
     done
   with End_of_file -> ());
  close_in ic
